#!/bin/sh
# Offline setup: install the runtime-contract libraries beside the repository's interpreter.
cd "$(dirname "$0")"
if [ ! -d .deps/icontract ]; then
  /venv/bin/pip install -q --no-index --find-links /opt/veriftools/wheels --target .deps icontract deal >/dev/null 2>&1 || echo "setup: icontract/deal not installed (checks fall back to plain wrappers)"
fi
mkdir -p .work evidence replay
exit 0
