#!/bin/sh
# Offline setup: install the runtime-contract libraries beside the repository's interpreter.
# Safe when several checks start at once on a fresh checkout: the packages are installed into a private directory and
# renamed into place in one step, so no check ever imports from a half-written .deps.
cd "$(dirname "$0")"
mkdir -p .work evidence replay
if [ ! -d .deps/icontract ]; then
  tmp=".deps.tmp.$$"
  rm -rf "$tmp"
  if /venv/bin/pip install -q --no-index --find-links /opt/veriftools/wheels --target "$tmp" icontract deal >/dev/null 2>&1; then
    mv -T "$tmp" .deps 2>/dev/null || rm -rf "$tmp"      # somebody else was first: theirs is complete too
  else
    rm -rf "$tmp"
    echo "setup: icontract/deal not installed (checks fall back to plain wrappers)"
  fi
fi
exit 0
