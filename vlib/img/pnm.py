"""Independent Netpbm (P5/P6) and PNG readers used as observers of the decoders' output."""
import re
import struct
import zlib


class BadImage(Exception):
    pass


_HDR = re.compile(rb"(P[56])\s+(\d+)\s+(\d+)\s+(\d+)\s", re.S)


def read_pnm(data):
    """-> dict(magic, width, height, maxval, channels, samples(bytes), expected(int), complete(bool))"""
    m = _HDR.match(data)
    if not m:
        raise BadImage("no Netpbm header")
    magic = m.group(1).decode()
    w, h, mx = int(m.group(2)), int(m.group(3)), int(m.group(4))
    ch = 3 if magic == "P6" else 1
    samples = data[m.end():]
    exp = w * h * ch
    return {"magic": magic, "width": w, "height": h, "maxval": mx, "channels": ch, "samples": samples,
            "expected": exp, "complete": len(samples) == exp, "header_len": m.end()}


def pixels_rgb(img):
    """list of rows of (r,g,b) for a complete P6 image / grey values for P5"""
    w, h, ch, s = img["width"], img["height"], img["channels"], img["samples"]
    rows = []
    for y in range(h):
        row = s[y * w * ch:(y + 1) * w * ch]
        if ch == 3:
            rows.append([tuple(row[i:i + 3]) for i in range(0, len(row), 3)])
        else:
            rows.append(list(row))
    return rows


def _paeth(a, b, c):
    p = a + b - c
    pa, pb, pc = abs(p - a), abs(p - b), abs(p - c)
    if pa <= pb and pa <= pc:
        return a
    if pb <= pc:
        return b
    return c


def read_png(data):
    """Minimal PNG reader (non-interlaced; colour types 0,2,3,6; bit depths 1-8).
    -> dict(width, height, bitdepth, colortype, palette [(r,g,b)], rows [[index or tuple]], idat_len, expected_len)"""
    if data[:8] != b"\x89PNG\r\n\x1a\n":
        raise BadImage("no PNG signature")
    pos = 8
    ihdr = None
    plte = None
    idat = b""
    seen_end = False
    while pos + 8 <= len(data):
        ln, typ = struct.unpack(">I4s", data[pos:pos + 8])
        body = data[pos + 8:pos + 8 + ln]
        if len(body) < ln:
            raise BadImage("truncated chunk %r" % typ)
        crc = data[pos + 8 + ln:pos + 12 + ln]
        if len(crc) < 4 or struct.unpack(">I", crc)[0] != (zlib.crc32(typ + body) & 0xFFFFFFFF):
            raise BadImage("bad CRC in %r" % typ)
        pos += 12 + ln
        if typ == b"IHDR":
            ihdr = struct.unpack(">IIBBBBB", body)
        elif typ == b"PLTE":
            plte = [tuple(body[i:i + 3]) for i in range(0, len(body), 3)]
        elif typ == b"IDAT":
            idat += body
        elif typ == b"IEND":
            seen_end = True
            break
    if ihdr is None or not seen_end:
        raise BadImage("missing IHDR/IEND")
    w, h, bd, ct, comp, flt, inter = ihdr
    if inter != 0:
        raise BadImage("interlaced PNG not supported by the observer")
    try:
        raw = zlib.decompress(idat)
    except zlib.error as exc:
        raise BadImage("IDAT does not inflate: %s" % exc)
    nch = {0: 1, 2: 3, 3: 1, 4: 2, 6: 4}[ct]
    bpp_bits = nch * bd
    rowbytes = (w * bpp_bits + 7) // 8
    expected = h * (1 + rowbytes)
    res = {"width": w, "height": h, "bitdepth": bd, "colortype": ct, "palette": plte, "idat_len": len(raw),
           "expected_len": expected, "complete": len(raw) == expected, "rows": None}
    if len(raw) != expected:
        return res
    bpp = max(1, bpp_bits // 8)
    prev = bytearray(rowbytes)
    rows = []
    p = 0
    for y in range(h):
        ft = raw[p]
        line = bytearray(raw[p + 1:p + 1 + rowbytes])
        p += 1 + rowbytes
        if ft == 1:
            for i in range(bpp, rowbytes):
                line[i] = (line[i] + line[i - bpp]) & 255
        elif ft == 2:
            for i in range(rowbytes):
                line[i] = (line[i] + prev[i]) & 255
        elif ft == 3:
            for i in range(rowbytes):
                a = line[i - bpp] if i >= bpp else 0
                line[i] = (line[i] + ((a + prev[i]) >> 1)) & 255
        elif ft == 4:
            for i in range(rowbytes):
                a = line[i - bpp] if i >= bpp else 0
                c = prev[i - bpp] if i >= bpp else 0
                line[i] = (line[i] + _paeth(a, prev[i], c)) & 255
        elif ft != 0:
            raise BadImage("bad filter type %d" % ft)
        prev = line
        if bd == 8:
            if nch == 1:
                rows.append(list(line))
            else:
                rows.append([tuple(line[i:i + nch]) for i in range(0, len(line), nch)])
        else:
            vals = []
            per = 8 // bd
            mask = (1 << bd) - 1
            for b in line:
                for k in range(per):
                    vals.append((b >> (8 - bd * (k + 1))) & mask)
            rows.append(vals[:w])
    res["rows"] = rows
    return res
