"""Shared image workloads."""
import glob
import os
import random

from .. import boot
from . import model as M


def determinism_items(rng, n):
    """Items for C12: the repository's own fixtures plus generated files of every format."""
    items = []
    fx = os.path.join(boot.REPO, "tests", "coco_tests", "fixtures")
    ext = {"hrs": "hrs", "pix": "pix", "max": "max", "mge": "mge", "cm3": "cm3", "rat": "rat", "vef": "vef"}
    for fmt, e in ext.items():
        for p in sorted(glob.glob(os.path.join(fx, "*." + e)))[:2]:
            data = open(p, "rb").read()
            if len(data) < 70000:
                items.append({"kind": "decode", "fmt": fmt, "hex": data.hex(), "args": [], "name": os.path.basename(p)})
    pal = M.rand_palette(rng)
    items.append({"kind": "decode", "fmt": "hrs", "hex": M.enc_hrs(M.rand_pixels(rng, 16, 4, "random"), pal, 16, 4).hex(),
                  "args": ["-w", "16", "-r", "4"]})
    items.append({"kind": "decode", "fmt": "pix", "hex": M.enc_pix(M.rand_pixels(rng, 8, 8, "random"), 8).hex(), "args": []})
    for mode in ("bw", "br", "s11"):
        bits = M.rand_pixels(rng, 32, 4, "random", 2)
        items.append({"kind": "decode", "fmt": "max", "hex": M.enc_max(bits, 32, 4).hex(), "args": M.MAX_MODES[mode] + ["-w", "32"]})
    items.append({"kind": "decode", "fmt": "mge", "hex": M.enc_mge(M.rand_pixels(rng, 320, 200, "runs"), pal, False, True, rng, "random").hex(), "args": []})
    items.append({"kind": "decode", "fmt": "rat", "hex": M.enc_rat(M.rand_pixels(rng, 320, 199, "runs"), pal, rng, "random")[0].hex(), "args": []})
    items.append({"kind": "decode", "fmt": "cm3", "hex": M.enc_cm3(M.rand_pixels(rng, 320, 192, "vrepeat"), pal, False, True, rng, "mixed").hex(), "args": []})
    for vt in (0, 1):
        w, h, ncol, rec, ppb = M.VEF_TYPES[vt]
        items.append({"kind": "decode", "fmt": "vef", "hex": M.enc_vef(M.rand_pixels(rng, w, h, "runs", ncol), pal, vt, True, rng, "random").hex(), "args": []})
    # damaged inputs must behave deterministically too
    items.append({"kind": "decode", "fmt": "mge", "hex": items[-4]["hex"][:400], "args": []})
    rng.shuffle(items)
    return items[:max(n, 8)] if n < len(items) else items
