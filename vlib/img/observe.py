"""Conservation monitor over what a decoder left behind: samples written = samples announced."""
from . import pnm


def classify(fmt, res):
    """res: result of decoders.decode().  ->
       {'kind': 'failed' | 'complete' | 'incomplete' | 'garbage', 'announced': .., 'written': .., 'why': ..}"""
    if res["status"] != "ok":
        return {"kind": "failed", "why": res["status"] + ":" + str(res.get("exc") or res.get("code")),
                "output_left": bool(res.get("out_exists"))}
    if not res.get("out_exists"):
        # maxtoppm's documented failure result: convert() returned False and start() removed the output
        return {"kind": "failed", "why": "no-output", "output_left": False}
    out = res["out"]
    if fmt == "vef":
        try:
            p = pnm.read_png(out)
        except pnm.BadImage as exc:
            return {"kind": "garbage", "why": str(exc)}
        if not p["complete"]:
            return {"kind": "incomplete", "announced": p["expected_len"], "written": p["idat_len"],
                    "size": (p["width"], p["height"])}
        bad = 0
        if p["colortype"] == 3:
            npal = len(p["palette"] or [])
            for row in p["rows"]:
                for v in row:
                    if v >= npal:
                        bad += 1
        if bad:
            return {"kind": "incomplete", "announced": 0, "written": bad, "why": "pixel index beyond palette",
                    "size": (p["width"], p["height"])}
        return {"kind": "complete", "size": (p["width"], p["height"]), "png": p}
    try:
        img = pnm.read_pnm(out)
    except pnm.BadImage as exc:
        return {"kind": "garbage", "why": str(exc)}
    if not img["complete"]:
        return {"kind": "incomplete", "announced": img["expected"], "written": len(img["samples"]),
                "size": (img["width"], img["height"])}
    return {"kind": "complete", "size": (img["width"], img["height"]), "img": img}
