"""In-process invocation of the real decoders through their command-line entry points."""
import importlib
import io
import os
import sys
import time

from .. import boot

boot.assert_repo()

MODULES = {"hrs": "coco.hrstoppm", "pix": "coco.pixtopgm", "max": "coco.maxtoppm", "mge": "coco.mgetoppm",
           "cm3": "coco.cm3toppm", "rat": "coco.rattoppm", "vef": "coco.veftopng"}
EXT = {"hrs": ("hrs", "ppm"), "pix": ("pix", "pgm"), "max": ("max", "ppm"), "mge": ("mge", "ppm"), "cm3": ("cm3", "ppm"),
       "rat": ("rat", "ppm"), "vef": ("vef", "png")}
_COUNTER = [0]
_DIRS = set()


class _Sink(io.StringIO):
    """Stand-in for sys.stdout / sys.stderr while a decoder runs (they take .buffer at argparse time)."""

    def __init__(self):
        io.StringIO.__init__(self)
        self.buffer = io.BytesIO()


def workdir():
    home = os.environ.get("VERIF_HOME") or os.path.dirname(os.path.dirname(os.path.dirname(os.path.abspath(__file__))))
    d = os.path.join(home, ".work", "img-%d" % os.getpid())
    if d not in _DIRS:
        import atexit
        import shutil

        _DIRS.add(d)
        atexit.register(shutil.rmtree, d, True)
    # (created on every call: nothing may assume that a scratch directory somebody else could see stays in place -
    # several checks may be running from the same checkout at once)
    os.makedirs(d, exist_ok=True)
    return d


CPU_CUT = 45


class CpuBudget(BaseException):
    """Raised inside a decoder by the virtual-time interval timer."""


def _on_cpu_alarm(signum, frame):
    raise CpuBudget()


def _arm_cpu_timer():
    import signal

    try:
        old = signal.signal(signal.SIGVTALRM, _on_cpu_alarm)
    except ValueError:                    # not the main thread: the shard watchdog is all there is
        return None
    signal.setitimer(signal.ITIMER_VIRTUAL, CPU_CUT)
    return old


def _disarm_cpu_timer(old):
    import signal

    if old is None:
        return
    signal.setitimer(signal.ITIMER_VIRTUAL, 0)
    signal.signal(signal.SIGVTALRM, old)


def decode(fmt, data, args=(), keep=False, in_ext=None):
    """Run `<fmt>to...` start(argv) on a file holding `data`.
    -> dict(status: ok|exc|exit, exc, code, out (bytes|None), out_exists, cpu, stderr)"""
    mod = importlib.import_module(MODULES[fmt])
    d = workdir()
    _COUNTER[0] += 1
    # (in_ext: the input file's name as the user might have it - no extension, another one, upper case)
    src = os.path.join(d, "in%d.%s" % (_COUNTER[0], EXT[fmt][0]) if in_ext is None else "IN%d%s" % (_COUNTER[0], in_ext))
    dst = os.path.join(d, "out%d.%s" % (_COUNTER[0], EXT[fmt][1]))
    with open(src, "wb") as f:
        f.write(data)
    if os.path.exists(dst):
        os.remove(dst)
    if _COUNTER[0] % 2:
        # every other run finds its output file already there, longer than any image it will write is not needed: a
        # few bytes of another format are enough to show whether the decoder REPLACES what it finds
        with open(dst, "wb") as f:
            f.write(b"P6\n1 1\n255\n\x00\x00\x00 stale output of an earlier run\n" * 3)
    argv = list(args) + [src, dst]
    res = {"status": "ok", "exc": None, "code": None}
    saved = (sys.stdout, sys.stderr)
    sys.stdout = _Sink()
    sys.stderr = _Sink()
    t0 = time.process_time()
    timer = _arm_cpu_timer()
    try:
        mod.start(argv)
    except CpuBudget:
        # the decoder used CPU_CUT seconds of processor time (not wall-clock time) on one file: it is abandoned, and the
        # checks report the case (cpu > their limit) instead of losing the whole shard to the watchdog
        res["status"] = "exc"
        res["exc"] = "CpuBudget"
        res["msg"] = "cut off after %d s of CPU time" % CPU_CUT
    except SystemExit as exc:
        code = exc.code
        if code is None or code == 0:
            res["status"] = "ok"
        else:
            res["status"] = "exit"
            res["code"] = code if isinstance(code, int) else str(code)[:80]
    except RecursionError:
        res["status"] = "exc"
        res["exc"] = "RecursionError"
    except BaseException as exc:  # noqa: BLE001 - the monitor wants every class
        if isinstance(exc, KeyboardInterrupt):
            raise
        res["status"] = "exc"
        res["exc"] = type(exc).__name__
        res["msg"] = str(exc)[:120]
    finally:
        _disarm_cpu_timer(timer)
        res["stderr"] = sys.stderr.getvalue()[-300:]
        sys.stdout, sys.stderr = saved
    res["cpu"] = time.process_time() - t0
    res["out_exists"] = os.path.exists(dst)
    res["out"] = None
    if res["out_exists"]:
        with open(dst, "rb") as f:
            res["out"] = f.read()
    # files the decoder left behind besides the named output
    res["extra_files"] = sorted(x for x in os.listdir(d) if x not in (os.path.basename(src), os.path.basename(dst)))
    if not keep:
        for fn in (src, dst):
            try:
                os.remove(fn)
            except OSError:
                pass
    return res
