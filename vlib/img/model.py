"""Image models, reference renderers (what the decoded picture must be) and reference encoders
(including nondeterministic compressing encoders) for the seven formats.  Layouts: DESIGN.md Appendix C."""

# snapshot of the composite->RGB permutation of MGE (no independent definition available offline;
# C16 detects changes to the table, not whether it was right to begin with)
C2R = [0, 21, 2, 20, 6, 49, 35, 4, 33, 5, 14, 1, 12, 10, 3, 28, 7, 17, 16, 22, 48, 34, 37, 32, 44, 40, 42, 13, 8, 11, 24,
       26, 56, 19, 18, 50, 54, 52, 38, 36, 46, 45, 41, 15, 9, 25, 27, 30, 63, 58, 23, 51, 55, 53, 39, 60, 47, 61, 43, 57,
       29, 31, 59, 62]


def rgb6(c):
    """CoCo 3 six-bit colour code R1 G1 B1 R0 G0 B0 -> (r, g, b), component = (hi*2+lo)*85."""
    c &= 63
    r = ((c >> 5) & 1) * 2 + ((c >> 2) & 1)
    g = ((c >> 4) & 1) * 2 + ((c >> 1) & 1)
    b = ((c >> 3) & 1) * 2 + (c & 1)
    return (r * 85, g * 85, b * 85)


def bytes_to_nibble_pixels(row_bytes):
    out = []
    for b in row_bytes:
        out.append(b >> 4)
        out.append(b & 15)
    return out


def nibble_rows(pix, w, h):
    """pixel index rows -> packed bytes (high nibble = left pixel); odd widths are padded with 0"""
    out = bytearray()
    for y in range(h):
        row = list(pix[y]) + ([0] if w % 2 else [])
        for x in range(0, len(row), 2):
            out.append((row[x] << 4) | row[x + 1])
    return bytes(out)


def rand_pixels(rng, w, h, kind, ncol=16):
    if kind == "random":
        return [[rng.randrange(ncol) for _ in range(w)] for _ in range(h)]
    if kind == "zero":
        return [[0] * w for _ in range(h)]
    if kind == "max":
        return [[ncol - 1] * w for _ in range(h)]
    if kind == "alt":
        return [[(x + y) % ncol for x in range(w)] for y in range(h)]
    if kind == "altnib":
        return [[(ncol - 1) if (x % 2 == 0) else 0 for x in range(w)] for _ in range(h)]
    if kind == "corners":
        p = [[0] * w for _ in range(h)]
        p[0][0] = 1 % ncol
        p[0][w - 1] = 2 % ncol
        p[h - 1][0] = 3 % ncol
        p[h - 1][w - 1] = (ncol - 1)
        return p
    if kind == "ramp":
        return [[(x * ncol // max(1, w)) % ncol for x in range(w)] for _ in range(h)]
    if kind == "stripes":
        return [[(y // 3) % ncol for _ in range(w)] for y in range(h)]
    if kind == "runs":
        p = []
        for y in range(h):
            row = []
            while len(row) < w:
                row += [rng.randrange(ncol)] * rng.choice([1, 2, 2, 3, 7, 40, 129, 300])
            p.append(row[:w])
        return p
    if kind == "flatrows":
        return [[rng.randrange(ncol)] * w for _ in range(h)]
    if kind == "carry":
        # a busy row, then rows that repeat the busy row's last byte (its last two pixels) all the way across: the row
        # a "same as the byte before" coding can express without any data of its own, right below a row that differs
        p = []
        while len(p) < h:
            busy = [rng.randrange(ncol) for _ in range(w)]
            p.append(busy)
            for _ in range(rng.choice([1, 1, 2, 3])):
                p.append([busy[w - 2 + x % 2] for x in range(w)])
        return p[:h]
    if kind in ("bottomflat", "topflat"):
        # busy part and one big flat area (long runs at the very end / start of the compressed stream)
        cut = h * 3 // 4 if kind == "bottomflat" else h // 4
        p = []
        for y in range(h):
            flat = (y >= cut) if kind == "bottomflat" else (y < cut)
            p.append([ncol - 1 if flat else rng.randrange(ncol) for _ in range(w)])
        return p
    if kind == "vrepeat":
        base = [rng.randrange(ncol) for _ in range(w)]
        p = []
        for y in range(h):
            if rng.random() < 0.3:
                base = [rng.randrange(ncol) if rng.random() < 0.1 else v for v in base]
            p.append(list(base))
        return p
    raise ValueError(kind)


PIXEL_KINDS = ["random", "zero", "max", "alt", "altnib", "corners", "ramp", "stripes", "runs", "flatrows", "vrepeat", "bottomflat", "topflat"]


def rand_palette(rng, kind="random"):
    if kind == "random":
        return [rng.randrange(64) for _ in range(16)]
    if kind == "identity":
        return list(range(16))
    if kind == "high":
        return [48 + i for i in range(16)]
    raise ValueError(kind)


def expected_rgb(pix, palette):
    return [[rgb6(palette[v]) for v in row] for row in pix]


# ---------------------------------------------------------------------------------- HRS
def enc_hrs(pix, palette, w, h, skip=0, fill=0xEE):
    return bytes([fill & 255] * skip) + bytes(palette) + nibble_rows(pix, w, h)


# ---------------------------------------------------------------------------------- PIX
def enc_pix(grid, side):
    """grid[row][col] of 4-bit values as it must appear in the OUTPUT picture (side x side)."""
    out = bytearray()
    for y in range(side):
        for x in range(side // 2):
            hi = grid[2 * x][y]
            lo = grid[2 * x + 1][y]
            out.append((hi << 4) | lo)
    return bytes(out)


def expected_pix(grid):
    return [[255 - 17 * v for v in row] for row in grid]


# ---------------------------------------------------------------------------------- MAX
BR2 = [(0, 0, 0), (255, 85, 0), (0, 170, 255), (255, 255, 255)]
BR3 = [(0, 0, 0), (255, 0, 0), (0, 0, 255), (255, 255, 255)]
SEMIG = [(0, 0, 0), (0, 255, 0), (255, 255, 0), (0, 0, 255), (255, 0, 0), (255, 255, 255), (0, 211, 170), (204, 0, 255),
         (255, 128, 0)]
MAX_MODES = {"bw": [], "br": ["-br"], "rb": ["-rb"], "br2": ["-br2"], "rb2": ["-rb2"], "br3": ["-br3"], "rb3": ["-rb3"],
             "s10": ["-s10"], "s11": ["-s11"]}


def enc_max(bits, cols, rows, newsroom=False, skip=0, lenfield=None, first=0, load=0x0E00):
    """bits[row][col] in {0,1}; cols multiple of 8.  load: the DECB load address in the 5-byte preamble (where the block
    would go in a CoCo's memory - nothing to do with the picture)."""
    body = bytearray()
    for y in range(rows):
        for x in range(0, cols, 8):
            v = 0
            for k in range(8):
                v = (v << 1) | (bits[y][x + k] if x + k < cols else 0)
            body.append(v)
    if newsroom:
        head = bytes([cols // 8, rows])
    else:
        size = (cols * rows // 8) if lenfield is None else lenfield
        head = bytes([first, (size >> 8) & 255, size & 255, (load >> 8) & 255, load & 255])
    return bytes([0x55] * skip) + head + bytes(body)


def _clip(v):
    return 255 if v > 255 else (0 if v < 0 else v)


def expected_max(bits, cols, rows, mode):
    """Reference rendering per pixel mode (bw/br2/rb2/br3/rb3/s10/s11 from the mode descriptions; br/rb = snapshot
    of the artifact filter, trusted base)."""
    out = []
    for y in range(rows):
        row = bits[y]
        if mode == "bw":
            out.append([BR2[b * 3] for b in row])
        elif mode in ("br2", "rb2", "br3", "rb3", "s10", "s11"):
            r = []
            for x in range(0, cols, 2):
                hi, lo = row[x], row[x + 1]
                if mode == "br2":
                    c = BR2[hi * 2 + lo]
                elif mode == "rb2":
                    c = BR2[hi + lo * 2]
                elif mode == "br3":
                    c = BR3[hi * 2 + lo]
                elif mode == "rb3":
                    c = BR3[hi + lo * 2]
                elif mode == "s10":
                    c = SEMIG[1 + hi + lo * 2]
                else:
                    c = SEMIG[5 + hi + lo * 2]
                r += [c, c]
            out.append(r)
        else:
            r = []
            oy = r2 = g2 = b2 = 0
            for x0 in range(0, cols, 8):
                xx = -100 if mode == "br" else 100
                for k in range(8):
                    ny = row[x0 + k] * 255
                    yv = (oy + ny + (ny >> 2)) >> 1
                    i = (xx * (yv - oy)) >> 7
                    rr = _clip(int(yv + 0.9563 * i))
                    gg = _clip(int(yv - 0.2721 * i))
                    bb = _clip(int(yv - 1.1070 * i))
                    r.append(((rr + r2) >> 1, (gg + g2) >> 1, (bb + b2) >> 1))
                    oy = ny
                    xx = -xx
                    r2, g2, b2 = rr, gg, bb
            out.append(r)
            # note: the decoder resets its filter state per row as well
    return out


# ---------------------------------------------------------------------------------- MGE
# the two flag bytes of an MGE header mean "zero / not zero": files in the wild carry 1, 255 and other non-zero values
MGE_FLAG = [1]


MGE_TITLE = [None]        # when set: the picture's title field (text the decoder only echoes; any byte values)


def mge_header(palette, rgb=True, compressed=False, title=b"TITLE", cycles=0, cycpal=0):
    if MGE_TITLE[0] is not None:
        title = MGE_TITLE[0]
    t = title[:29] + b"\0" * (30 - len(title[:29]))
    nz = MGE_FLAG[0]
    return bytes([0]) + bytes(palette) + bytes([0 if rgb else nz]) + bytes([0 if compressed else nz]) + t + bytes([cycles, cycpal])


def rle_pairs(data, rng, preset):
    """(count, value) pairs, count 1..255, covering data.  Encoder choices are made by rng / preset."""
    out = bytearray()
    i, n = 0, len(data)
    while i < n:
        v = data[i]
        j = i
        while j < n and data[j] == v:
            j += 1
        run = j - i
        while run > 0:
            if preset == "maximal":
                c = min(run, 255)
            elif preset == "ones":
                c = 1
            elif preset == "edge":
                c = min(run, rng.choice([255, 254, 128, 127, 129, 1, 2]))
            else:
                c = rng.randint(1, min(run, 255))
            out.append(c)
            out.append(v)
            run -= c
        i = j
    return bytes(out)


def enc_mge(pix, palette, rgb=True, compressed=False, rng=None, preset="maximal", title=b"TITLE"):
    data = nibble_rows(pix, 320, 200)
    if not compressed:
        return mge_header(palette, rgb, False, title) + data
    return mge_header(palette, rgb, True, title) + rle_pairs(data, rng, preset) + bytes([0])


def expected_mge(pix, palette, rgb=True):
    pal = palette if rgb else [C2R[p & 63] for p in palette]
    return [[rgb6(pal[v]) for v in row] for row in pix]


# ---------------------------------------------------------------------------------- RAT
def enc_rat(pix, palette, rng, preset="maximal", escape=None, border=0):
    """320x199, 160 bytes per row.  Stream of literals (!= escape) and escape,count,value triples."""
    data = nibble_rows(pix, 320, 199)
    if escape is None:
        # prefer an escape byte that does not occur in the data
        used = set(data)
        cand = [b for b in range(256) if b not in used]
        escape = rng.choice(cand) if cand and preset != "escape-in-data" else data[rng.randrange(len(data))]
    out = bytearray([escape, 1, border]) + bytes(palette)
    i, n = 0, len(data)
    while i < n:
        v = data[i]
        j = i
        while j < n and data[j] == v:
            j += 1
        run = j - i
        while run > 0:
            if preset == "maximal":
                c = min(run, 255)
            elif preset == "ones":
                c = 1
            elif preset == "edge":
                c = min(run, rng.choice([255, 254, 128, 127, 129, 1, 2, 3]))
            else:
                c = rng.randint(1, min(run, 255))
            literal_ok = v != escape
            use_literal = literal_ok and (c == 1 and (preset in ("ones", "maximal") or rng.random() < 0.7))
            if use_literal:
                out.append(v)
                c = 1
            else:
                out += bytes([escape, c, v])
            run -= c
        i = j
    return bytes(out), escape


# ---------------------------------------------------------------------------------- CM3
CM3_EXTRA = [None]      # (anirat, cycrat, 8 cycle-table bytes, animation flag, cycle flag) or None for all zero


def cm3_header(palette, two_pages, patterns, anirat=0, cycrat=0):
    typ = (0x80 if two_pages else 0) | (0 if patterns else 1)
    if CM3_EXTRA[0] is not None:
        # the animation / colour-cycling fields (what the editor does with the picture on screen; nothing a still decode uses)
        ar, cr, table, af, cf = CM3_EXTRA[0]
        h = bytes([typ]) + bytes(palette) + bytes([ar, cr]) + bytes(table) + bytes([af, cf])
    else:
        h = bytes([typ]) + bytes(palette) + bytes([anirat, cycrat]) + bytes([0] * 8) + bytes([0, 0])
    if patterns:
        h += bytes([(i * 7) & 255 for i in range(243)])
    return h


def enc_cm3(pix, palette, two_pages=False, patterns=True, rng=None, preset="raw"):
    """pix: 192 or 384 rows of 320 pixels.  preset: raw | coded | mixed | copyleft0"""
    rows = 384 if two_pages else 192
    out = bytearray(cm3_header(palette, two_pages, patterns))
    linbuf = [0] * 160
    for page in range(2 if two_pages else 1):
        out.append(192)
        for ly in range(192):
            y = page * 192 + ly
            line = list(nibble_rows([pix[y]], 320, 1))
            coded = preset == "coded" or (preset in ("mixed", "copyleft0") and rng.random() < 0.7)
            if not coded:
                out.append(rng.choice([128, 129, 200, 255]) if rng else 128)
                out += bytes(line)
                linbuf = list(line)
                continue
            # first-level flags: 0 = repeat previous byte (column 0: byte 159 of the buffer, i.e. of the previous line)
            flags1 = []
            flags2 = []
            lits = []
            buf = list(linbuf)
            for x in range(160):
                prev = buf[(x - 1) % 160]
                a = line[x]
                can_left = a == prev
                can_up = a == buf[x]
                choice = None
                if can_left and (preset == "copyleft0" or rng.random() < 0.9):
                    choice = "left"
                elif can_up and rng.random() < 0.9:
                    choice = "up"
                else:
                    choice = "lit"
                if choice == "left":
                    flags1.append(0)
                else:
                    flags1.append(1)
                    if choice == "up":
                        flags2.append(0)
                    else:
                        flags2.append(1)
                        lits.append(a)
                buf[x] = a
            b1 = bytearray(20)
            for i, f in enumerate(flags1):
                if f:
                    b1[i // 8] |= 1 << (7 - i % 8)
            n2 = (len(flags2) + 7) // 8
            b2 = bytearray(n2)
            for i, f in enumerate(flags2):
                if f:
                    b2[i // 8] |= 1 << (7 - i % 8)
            # second-level flags and literals are interleaved in the stream: the decoder reads all of buff2 first,
            # literals follow in order
            if n2 > 127:
                out.append(128)
                out += bytes(line)
            else:
                out.append(n2)
                out += bytes(b1) + bytes(b2) + bytes(lits)
            linbuf = buf
    return bytes(out)


# ---------------------------------------------------------------------------------- VEF
VEF_TYPES = {0: (320, 200, 16, 80, 2), 1: (640, 200, 4, 80, 4), 3: (320, 200, 4, 40, 4)}   # w, h, colours, record bytes, px/byte


def vef_pack_rows(pix, vtype):
    w, h, ncol, rec, ppb = VEF_TYPES[vtype]
    rows = []
    for y in range(h):
        b = bytearray()
        row = pix[y]
        if ppb == 2:
            for x in range(0, w, 2):
                b.append((row[x] << 4) | row[x + 1])
        else:
            for x in range(0, w, 4):
                b.append((row[x] << 6) | (row[x + 1] << 4) | (row[x + 2] << 2) | row[x + 3])
        rows.append(bytes(b))
    return rows


def squash_record(data, rng, preset):
    """One record: length byte + groups.  header > 128 -> repeat next byte (h-128) times (1..127);
    header 1..128 -> that many literal bytes."""
    groups = bytearray()
    i, n = 0, len(data)
    while i < n:
        v = data[i]
        j = i
        while j < n and data[j] == v:
            j += 1
        run = j - i
        use_run = run >= 2 and (preset in ("maximal", "edge") or rng.random() < 0.7)
        if not use_run and preset in ("random", "edge") and rng.random() < 0.12:
            # a repeat group of length ONE (count byte 129): legal, and what an encoder emits for an isolated byte
            groups += bytes([129, v])
            i += 1
            continue
        if use_run:
            if preset == "maximal":
                c = min(run, 127)
            elif preset == "edge":
                c = min(run, rng.choice([127, 126, 2, 3, 64]))
            else:
                c = rng.randint(1, min(run, 127))
            if c < 1:
                c = 1
            groups += bytes([128 + c, v])
            i += c
        else:
            # literal group: extend over following bytes
            if preset == "ones":
                k = 1
            else:
                k = 1
                lim = rng.choice([1, 2, 5, 128]) if preset != "maximal" else 128
                while i + k < n and k < lim and not (i + k + 1 < n and data[i + k] == data[i + k + 1] and preset == "maximal"):
                    k += 1
            groups += bytes([k]) + data[i:i + k]
            i += k
    if len(groups) > 255:
        return None
    return bytes([len(groups)]) + bytes(groups)


def enc_vef(pix, palette, vtype, squashed=False, rng=None, preset="maximal"):
    w, h, ncol, rec, ppb = VEF_TYPES[vtype]
    rows = vef_pack_rows(pix, vtype)
    head = bytes([0x80 if squashed else 0, vtype]) + bytes(palette)
    if not squashed:
        return head + b"".join(rows)
    out = bytearray(head)
    data = b"".join(rows)
    nrec = 400
    size = len(data) // nrec
    for k in range(nrec):
        chunk = data[k * size:(k + 1) * size]
        r = squash_record(chunk, rng, preset)
        if r is None:
            r = squash_record(chunk, rng, "maximal")
        out += r
    return bytes(out)


def expected_vef(pix, palette, vtype):
    """-> rows of 6-bit colour codes the PNG's palette indices must denote (before the 640 stretch)."""
    return [[palette[v] & 63 for v in row] for row in pix]
