"""Sharded runner, verdicts, evidence writer, replay files.

A property module (vlib/props/cNN.py) provides:

    PROPERTY   "C07"
    LEVEL      "exploration" | "fault_enumeration"
    RULE       text: how cases are generated, what makes one distinct / non-trivial
    ASSUMPTIONS list of strings
    cases(tier, seed)          -> iterable of JSON-serialisable case dicts (deterministic)
    run_case(case)             -> observation dict, keys (all optional except key):
         key          str   structural distinctness key
         nontrivial   bool  (default True)
         viols        list of {"sig": str, "detail": {...}}
         counters     dict name -> int
         sets         dict name -> list of hashable
         sample       anything JSON-serialisable, shown in evidence
    REQUIRED_COUNTERS (optional) list of counter names that must be > 0, otherwise the run is inconclusive
    post(merged, tier) (optional)  extra cross-case checks in the parent; returns list of viols
    SHARDS (optional)

The real code is always executed inside worker subprocesses (one per shard,
subprocess.run with a timeout; never multiprocessing.Pool).
"""

import hashlib
import importlib
import json
import os
import subprocess
import sys
import time

from . import findings

HOME = os.environ.get("VERIF_HOME") or os.path.dirname(os.path.dirname(os.path.abspath(__file__)))
WORK = os.path.join(HOME, ".work")
NPROC = min(15, (os.cpu_count() or 2))


def load_prop(pid):
    return importlib.import_module("vlib.props." + pid.lower())


def h(s):
    return hashlib.sha1(s.encode("utf-8", "replace")).hexdigest()[:16]


def seed_int():
    try:
        return int(os.environ.get("VERIF_SEED", "0"))
    except ValueError:
        return 0


# ----------------------------------------------------------------------------
# worker side


def worker_main(argv):
    pid, tier, seed, shard, nshards, out = argv
    seed, shard, nshards = int(seed), int(shard), int(nshards)
    import faulthandler

    mod = load_prop(pid)
    res = {
        "evaluations": 0,
        "keys": set(),
        "viols": {},
        "counters": {},
        "sets": {},
        "samples": [],
        "harness_errors": [],
        "cpu_max": 0.0,
        "cpu_sum": 0.0,
    }
    per_case_wall = getattr(mod, "CASE_WALL_LIMIT", 600)
    for i, case in enumerate(mod.cases(tier, seed)):
        # (a multiplicative hash of the case index, not the index itself: a workload that makes every 120th case an
        # expensive one would otherwise hand all of them to one of 15 shards)
        if (((i * 0x9E3779B1) & 0xFFFFFFFF) >> 12) % nshards != shard:
            continue
        faulthandler.dump_traceback_later(per_case_wall, exit=True)
        t0 = time.process_time()
        try:
            obs = mod.run_case(case)
        except Exception as exc:  # harness problem, never a verdict
            import traceback

            res["harness_errors"].append(
                {"case": case, "error": repr(exc), "tb": traceback.format_exc()[-2000:]}
            )
            faulthandler.cancel_dump_traceback_later()
            continue
        dt = time.process_time() - t0
        faulthandler.cancel_dump_traceback_later()
        res["evaluations"] += obs.get("evaluations", 1)
        res["cpu_sum"] += dt
        if dt > res["cpu_max"]:
            res["cpu_max"] = dt
        if obs.get("nontrivial", True):
            k = obs.get("key")
            if isinstance(k, (list, tuple, set)):
                for kk in k:
                    res["keys"].add(h(str(kk)))
            elif k is not None:
                res["keys"].add(h(str(k)))
        for v in obs.get("viols", ()):
            lst = res["viols"].setdefault(v["sig"], {"n": 0, "examples": []})
            lst["n"] += 1
            if len(lst["examples"]) < 3:
                lst["examples"].append({"case": case, "detail": v.get("detail")})
        for k, n in obs.get("counters", {}).items():
            res["counters"][k] = res["counters"].get(k, 0) + n
        for k, vals in obs.get("sets", {}).items():
            res["sets"].setdefault(k, set()).update(vals)
        if "sample" in obs and len(res["samples"]) < 2:
            res["samples"].append(obs["sample"])
    hm = sys.modules.get("vlib.harness")
    if hm is not None and getattr(hm, "GRAMMAR_RULES_SEEN", None):
        res["sets"].setdefault("grammar_rules_seen", set()).update(hm.GRAMMAR_RULES_SEEN)
    res["keys"] = sorted(res["keys"])
    res["sets"] = {k: sorted(v, key=str) for k, v in res["sets"].items()}
    with open(out, "w") as f:
        json.dump(res, f)
    return 0


# ----------------------------------------------------------------------------
# parent side


def run_shards(pid, tier, seed, nshards, timeout):
    os.makedirs(WORK, exist_ok=True)
    tag = "%s-%s-%d-%d" % (pid, tier, seed, os.getpid())
    procs = []
    for s in range(nshards):
        out = os.path.join(WORK, "%s-shard%d.json" % (tag, s))
        if os.path.exists(out):
            os.remove(out)
        cmd = [sys.executable, "-X", "faulthandler", "-m", "vlib.worker", pid, tier, str(seed), str(s), str(nshards), out]
        errf = open(out + ".err", "w")
        procs.append((s, out, errf, subprocess.Popen(cmd, stdout=errf, stderr=errf, cwd=HOME)))
    results, problems = [], []
    deadline = time.time() + timeout
    for s, out, errf, p in procs:
        try:
            rc = p.wait(timeout=max(1, deadline - time.time()))
        except subprocess.TimeoutExpired:
            p.kill()
            p.wait()
            rc = "timeout"
        errf.close()
        if rc != 0 or not os.path.exists(out):
            tail = ""
            try:
                tail = open(out + ".err").read()[-1500:]
            except OSError:
                pass
            problems.append("shard %d rc=%s %s" % (s, rc, tail))
        else:
            results.append(json.load(open(out)))
        for fn in (out, out + ".err"):
            try:
                os.remove(fn)
            except OSError:
                pass
    return results, problems


def merge(results):
    m = {
        "evaluations": 0,
        "keys": set(),
        "viols": {},
        "counters": {},
        "sets": {},
        "samples": [],
        "harness_errors": [],
        "cpu_max": 0.0,
        "cpu_sum": 0.0,
    }
    for r in results:
        m["evaluations"] += r["evaluations"]
        m["keys"].update(r["keys"])
        m["cpu_max"] = max(m["cpu_max"], r["cpu_max"])
        m["cpu_sum"] += r["cpu_sum"]
        for sig, d in r["viols"].items():
            t = m["viols"].setdefault(sig, {"n": 0, "examples": []})
            t["n"] += d["n"]
            t["examples"] = (t["examples"] + d["examples"])[:3]
        for k, n in r["counters"].items():
            m["counters"][k] = m["counters"].get(k, 0) + n
        for k, vals in r["sets"].items():
            m["sets"].setdefault(k, set()).update(vals)
        m["samples"] += r["samples"]
        m["harness_errors"] += r["harness_errors"]
    return m


def write_replay(pid, sig, example):
    d = os.path.join(HOME, "replay")
    os.makedirs(d, exist_ok=True)
    fn = os.path.join(d, "%s-%s.json" % (pid, h(sig + json.dumps(example.get("case"), sort_keys=True, default=str))))
    with open(fn, "w") as f:
        json.dump({"property": pid, "sig": sig, "case": example.get("case"), "detail": example.get("detail"),
                   "seed": seed_int()}, f, indent=1, default=str)
    return os.path.relpath(fn, HOME)


def check(pid, tier):
    t0 = time.time()
    seed = seed_int()
    mod = load_prop(pid)
    nshards = getattr(mod, "SHARDS", NPROC)
    timeout = getattr(mod, "TIMEOUT", {"quick": 1500, "thorough": 6 * 3600})[tier]
    results, problems = run_shards(pid, tier, seed, nshards, timeout)
    m = merge(results)
    inconclusive = list(problems)
    if m["harness_errors"]:
        inconclusive.append("harness errors: %d, first: %s" % (
            len(m["harness_errors"]), json.dumps(m["harness_errors"][0], default=str)[:1500]))
    if hasattr(mod, "post"):
        for v in mod.post(m, tier) or ():
            t = m["viols"].setdefault(v["sig"], {"n": 0, "examples": []})
            t["n"] += 1
            if len(t["examples"]) < 3:
                t["examples"].append({"case": v.get("case"), "detail": v.get("detail")})
    for c in getattr(mod, "REQUIRED_COUNTERS", ()):
        if m["counters"].get(c, 0) <= 0:
            inconclusive.append("deciding counter %s is zero" % c)
    if m["evaluations"] == 0:
        inconclusive.append("no executions observed")
    selfcheck = None
    if getattr(mod, "USES_REFERENCE_MODELS", False):
        from . import selftest

        fails = selftest.run(include_library=False)
        selfcheck = {"cases": selftest.count(), "failures": len(fails)}
        if fails:
            inconclusive.append("oracle self-check failed: " + "; ".join(fails[:3]))
    if m["counters"].get("oracle_selfcheck_failures"):
        inconclusive.append("renderer/parser self-check failed on %d cases" % m["counters"]["oracle_selfcheck_failures"])

    known = findings.load(pid)
    known_sigs = {k["sig"] for k in known}
    # witnesses of the known findings are part of the fixed workload (run in the parent,
    # on the same code) so that each listed finding is re-demonstrated on every run
    known_seen = {}
    for k in known:
        st = "no-witness"
        if k.get("witness") is not None and hasattr(mod, "run_case"):
            try:
                obs = run_case_isolated(pid, k["witness"])
                sigs = [v["sig"] for v in obs.get("viols", ())]
                st = "reproduced" if k["sig"] in sigs else "stale"
                for v in obs.get("viols", ()):
                    if v["sig"] not in known_sigs:
                        t = m["viols"].setdefault(v["sig"], {"n": 0, "examples": []})
                        t["n"] += 1
                        t["examples"].append({"case": k["witness"], "detail": v.get("detail")})
            except Exception as exc:  # pragma: no cover
                st = "witness-error %r" % (exc,)
                inconclusive.append("witness of %s failed to run: %r" % (k["sig"], exc))
        known_seen[k["sig"]] = st

    new = {sig: d for sig, d in m["viols"].items() if sig not in known_sigs}
    lines = []
    for k in known:
        n = m["viols"].get(k["sig"], {"n": 0})["n"]
        st = known_seen.get(k["sig"])
        if st == "reproduced" or n > 0:
            lines.append("KNOWN-FINDING: property=%s %s %s (workload cases attributed: %d)" % (pid, k["sig"], k["what"], n))
        else:
            lines.append("STALE-FINDING: property=%s %s no longer observed (%s)" % (pid, k["sig"], st))
    replays = []
    for sig, d in sorted(new.items()):
        ex = d["examples"][0] if d["examples"] else {}
        rp = write_replay(pid, sig, ex)
        replays.append(rp)
        lines.append("VIOLATION property=%s replay=%s sig=%s count=%d" % (pid, rp, sig, d["n"]))
        det = json.dumps(ex.get("detail"), default=str)
        lines.append("  detail: " + det[:500])

    wall = time.time() - t0
    cov = {
        "evaluations": m["evaluations"],
        "distinct_nontrivial": len(m["keys"]),
        "rule": getattr(mod, "RULE", ""),
        "samples": m["samples"][:6] or ["(no sample recorded)"],
        "exhaustive": bool(getattr(mod, "EXHAUSTIVE", {}).get(tier, False)) if isinstance(getattr(mod, "EXHAUSTIVE", None), dict) else False,
        "counters": dict(sorted(m["counters"].items())),
        "known_findings_observed": {sig: m["viols"].get(sig, {"n": 0})["n"] for sig in sorted(known_sigs)},
        "known_findings_witness_status": known_seen,
        "new_violation_signatures": sorted(new),
        "cpu_s_per_case_max": round(m["cpu_max"], 4),
        "cpu_s_total": round(m["cpu_sum"], 2),
        "shards": nshards,
        "inconclusive_reasons": inconclusive,
        "repo": os.environ.get("VERIF_REPO", "/repo"),
        "oracle_selfcheck": selfcheck,
    }
    for k, vals in sorted(m["sets"].items()):
        vals = sorted(vals, key=str)
        cov[k + "_count"] = len(vals)
        cov[k] = vals if len(vals) <= 400 else vals[:400] + ["..."]
    ev = {
        "property_id": pid,
        "tier": tier,
        "seed": seed,
        "level": getattr(mod, "LEVEL", "exploration"),
        "coverage": cov,
        "assumptions": list(getattr(mod, "ASSUMPTIONS", [])),
        "wall_s": round(wall, 2),
        "violations": sum(d["n"] for d in new.values()),
    }
    if os.environ.get("VERIF_REPO", "/repo") == "/repo" or os.environ.get("VERIF_WRITE_EVIDENCE"):
        os.makedirs(os.path.join(HOME, "evidence"), exist_ok=True)
        with open(os.path.join(HOME, "evidence", pid + ".json"), "w") as f:
            json.dump(ev, f, indent=1, default=str)
    for ln in lines:
        print(ln)
    print("%s tier=%s seed=%d evaluations=%d distinct=%d known=%d new=%d wall=%.1fs" % (
        pid, tier, seed, m["evaluations"], len(m["keys"]),
        sum(m["viols"].get(s, {"n": 0})["n"] for s in known_sigs), len(new), wall))
    if new:
        return 1
    if inconclusive:
        for r in inconclusive:
            print("INCONCLUSIVE property=%s reason=%s" % (pid, r[:1500]))
        return 2
    return 0


def run_case_isolated(pid, case):
    """Run one case in a fresh subprocess (used for witnesses and replay)."""
    os.makedirs(WORK, exist_ok=True)
    fn = os.path.join(WORK, "one-%s-%d-%s.json" % (pid, os.getpid(), h(json.dumps(case, sort_keys=True, default=str))))
    with open(fn, "w") as f:
        json.dump(case, f)
    try:
        p = subprocess.run([sys.executable, "-m", "vlib.worker", "--one", pid, fn], cwd=HOME,
                           capture_output=True, text=True, timeout=900)
        if p.returncode != 0:
            raise RuntimeError("one-case worker failed: " + p.stderr[-1500:])
        return json.loads(p.stdout.splitlines()[-1])
    finally:
        try:
            os.remove(fn)
        except OSError:
            pass


def replay(pid, path):
    d = json.load(open(path))
    obs = run_case_isolated(pid, d["case"])
    print(json.dumps(obs, indent=1, default=str)[:20000])
    known = {k["sig"] for k in findings.load(pid)}
    bad = [v for v in obs.get("viols", ()) if v["sig"] not in known]
    for v in bad:
        print("VIOLATION property=%s replay=%s sig=%s" % (pid, path, v["sig"]))
    return 1 if bad else 0
