"""C15 - any input is either converted or refused with a documented error; never an internal
exception, never a hang.  Exception-class monitor at the boundary of convert() and decb_to_b09.start()."""
import io
import os
import random
import signal
import time

from .. import harness, run
from ..cbref.ast import render_tokens, join
from ..gen import progs

PROPERTY = "C15"
LEVEL = "exploration"
RULE = ("case = one input text x option set (or one command line); inputs: grammar-directed programs with 0-3 token "
        "mutations (delete/duplicate/swap/insert), sentences derived at random from the tool's own grammar object, extreme literals, deep nesting, DATA item combinations, invalid per-name "
        "size maps, input file stems over [A-Za-z0-9_-]+; distinct = distinct text; non-trivial = all")
ASSUMPTIONS = [
    "documented refusals: parsimonious ParseError/IncompleteParseError, compiler.ParseError, LineNumberTooLargeException, "
    "pydantic ValidationError; through the CLI also argparse SystemExit(2) and OSError",
    "never hangs is decided as CPU time per case <= 20 s (typical cost 5-50 ms); the wall-clock watchdog firing is inconclusive",
]
REQUIRED_COUNTERS = ["convert_calls"]
CPU_LIMIT = 20.0

INSERT_POOL = ["=<", "=>", "><", "(", ")", ",", ":", '"', "&H", ".", "-", "+", "NOT", "THEN", "ELSE", "E", "1E99", "$", "=", ";", "@", "TO",
               "&HFFFFFF", "123456789012345678901234567890", "1E-99", "..", "- -", "&H", "IF", "NEXT", "FOR", "DATA", "'",
               "REM", "GOTO", "99999", "0", "^", "*", "/", "<>", "A$", "X(", "STRING$", "INKEY$", "HCIRCLE", "PRINT", "?",
               "\x00", "\t", "é"]

EXTREME = [
    "10 IF A=<B THEN 10", "10 IF A=>B THEN 10", "10 IF A$=<\"X\" THEN 10", "10 IF A$=>B$ THEN 10 ELSE 10", "10 IF A<>B AND A=<1 OR B=>2 THEN 10",
    "10 IF A><B THEN 10", "10 A=B=<C", "10 IF A==B THEN 10", "10 IF A<=>B THEN 10",
    "10 A=.", "10 A=1E99", "10 A=1E999", "10 A=-1E-99", "10 A=123456789012345678901234567890123456789",
    "10 A=&HFFFFFF", "10 A=&H", "10 A=& H", "10 A=&HG", "10 A=1.2.3", "10 A=1E", "10 A=1E+", "10 A=.E5", "10 A=- - - 5",
    "10 A=--5", "10 DIM A(&HFFFFFF)", "10 DIM A(99999999)", "10 DIM A(0)", "10 DIM A(1,2,3,4)", "10 DATA ,&HFF",
    "10 DATA &HFF,,1\n20 READ A,B,C", "10 DATA ,,,\n20 READ A,B$,C", "10 DATA \"A\",\n20 READ A$,B", "10 DATA 1E99,.,-\n20 READ A,B,C",
    "10 DATA .\n20 READ A", "10 DATA -\n20 READ A", "10 DATA &H\n20 READ A", "10 HCIRCLE(1,2),3,", "10 HCIRCLE(1,2),3,,",
    "10 HCIRCLE(1,2),3,,,", "10 HCIRCLE(1,2),3,4,5,6", "10 HPAINT(1,2),", "10 HPAINT(1,2),,3", "10 HLINE-(1,2),PSET,",
    "10 PRINT@", "10 PRINT@,", "10 PRINT,,,,;;;;", "10 ON GOTO 10", "10 ON A GOTO", "10 ON A GOTO 10,", "10 ON ERR GOTO 10\n20 ON ERR GOTO 10",
    "10 ON BRK GOTO 10\n20 ON BRK GOTO 20", "10 GOTO 20", "10 GOTO 99999", "99999 A=1", "32700 A=1", "32699 A=1", "32700 GOTO 32700",
    "", "\n", "\x00", "10", "10 ", "10 :", "10 ::::", "10 REM", "10 '", "A=1", "10 A=1\n10 A=2", "20 A=1\n10 A=2",
    "10 A$=\"", "10 A$=\"\"\"", "10 A$=\"X\":B$=\"Y", "10 IF THEN", "10 IF A THEN", "10 IF A THEN ELSE", "10 IF A THEN 10 ELSE",
    "10 IF A THEN 10 ELSE IF", "10 FOR I=1 TO", "10 NEXT", "10 NEXT,", "10 NEXT I,", "10 FOR=1 TO 2", "10 INPUT", "10 INPUT \"X\";",
    "10 LINE INPUT", "10 READ", "10 DIM", "10 POKE 65496", "10 POKE &HFFD8,1,2", "10 A=VARPTR()", "10 A=VARPTR(1)", "10 A=INSTR(1,2,3)",
    "10 A=STRING$(3,4)", "10 A$=STRING$(3,65)", "10 A=LEFT$(A$,1)", "10 A$=1", "10 A=\"X\"", "10 A=A$", "10 WIDTH", "10 WIDTH A$",
    "10 CLS A$", "10 TAB(3)", "10 PRINT TAB(", "10 A=ERNO(1)", "10 ON=1", "10 TO=1", "10 IF=1", "10 FN=1", "10 PI=3:SQ=2:DO=1",
    "10 A=1 E 5", "10 A=1ELSE", "10 IF A=1THEN10ELSE20\n20 REM", "10 FORI=1TO10STEP2:NEXTI", "10 CLEAR 200,300", "10 CLEAR A$",
    "10 A=B C", "10 A==1", "10 A=1=2=3", "10 A=(((((((((((((((((((((((((((((1)))))))))))))))))))))))))))))",
    "10 A=" + "(" * 200 + "1" + ")" * 200, "10 A=" + "-" * 300 + "1", "10 A=" + "NOT " * 100 + "1", "10 A=" + "+".join(["B"] * 400),
    "10 A=" + "ABS(" * 150 + "1" + ")" * 150, "10 A$=" + "+".join(['"X"'] * 300), "10 PRINT " + ";".join(["A"] * 300),
    "10 " + ":".join(["A=1"] * 400), "\n".join("%d A=%d" % (i, i) for i in range(1, 600)),
    "10 IF A THEN " * 40 + "B=1", "10 " + "IF A THEN B=1 ELSE " * 30 + "B=2", "10 " + "FOR I=1 TO 2:" * 50 + "NEXT:" * 49 + "NEXT",
    "10 DATA " + ",".join(["X"] * 500), "10 DIM " + ",".join("A%d(1)" % i for i in range(10)), "10 A(1,2,3,4,5,6,7,8)=1",
    "10 ON A GOTO " + ",".join(["10"] * 300),
    "10 DIM A(&H0)", "10 DIM B$(&H0,&H10)", "10 DIM C(3,& H 0,7)", "10 DIM D(&H0,&H0,&H0),E$(&H00)", "10 DIM A(0,5),B$(3,0,4)", "10 DIM A(00)",
    "10 DIM A(&H7FFF)", "10 DIM A(32767)", "10 DIM A(1.5)", "10 DIM A(-1)", "10 DIM A(&HFFFF)", "10 FOR I=&H0 TO &H0 STEP &H0:NEXT",
    "10 ON &H0 GOTO 10", "10 PRINT@&H0,&H0", "10 POKE &H0,&H0", "10 A=&H0+&H00+&H000+&H0000+&H00000", "10 DATA &H0,&H00\n20 READ A,B",
    "10 CLS &H0:HCOLOR &H0,&H0:HSCREEN &H0:WIDTH &H0", "10 A$=STRING$(&H0,\"X\")+LEFT$(\"A\",&H0)", "10 SOUND &H0,&H0",
]

def scaled_inputs():
    """Every list-like or chain-like construct of the language, far longer than any listing would have it: the passes
    over the parsed program are recursive, so size alone can exhaust the interpreter's stack."""
    out = []
    for n in (1000, 3000):
        for op in ("+", "-", "*", "/", "^", " AND ", " OR ", "=", "<"):
            out.append("10 A=B" + (op + "B") * n)
        out.append('10 A$="X"' + '+"X"' * n)
        out.append("10 IF A$" + "+A$" * n + '="" THEN 10')
        out.append("10 PRINT A" + ";A" * n)
        out.append("10 PRINT A" + ",B$" * n)
        out.append('10 PRINT "X"' * 1 + ' "X"' * n)
        out.append("10 DATA 1" + ",1" * n)
        out.append("10 DATA " + ",".join(["", "X", '"Y"', "1"] * (n // 4)) + "\n20 READ A$")
        out.append("10 A=1" + ":A=1" * n)
        out.append("\n".join("%d A=%d" % (i, i) for i in range(1, n + 1)))
        out.append("10 ON A GOTO 10" + ",10" * n)
        out.append("10 DIM A(1)" + "".join(",B%s(1)" % chr(65 + i % 26) for i in range(n)))
        out.append("10 READ A" + ",A" * n)
        out.append("10 INPUT A" + ",A" * n)
        out.append("10 FOR I=1 TO 2:NEXT I" + ",I" * n)
        out.append("10 A=B(" + "1," * n + "1)")
        out.append("10 A=" + "B(" * (n // 10) + "1" + ")" * (n // 10))
        out.append("10 A=" + "-" * n + "1")
        out.append("10 REM " + "X" * n * 10)
        out.append('10 A$="' + "X" * n * 10 + '"')
        out.append("10 A=" + "1" * n)
        out.append("10 A=." + "1" * n)
        out.append("10 A" + " " * n * 10 + "=1")
        out.append("10 GOSUB 20" + ":GOSUB 20" * n + "\n20 RETURN")
        out.append("10 " + "IF A THEN " * (n // 20) + "B=1")
        out.append("10 SOUND 1,1" + ":SOUND 1,1" * n)
    return out


BAD_CONFIGS = [{"A$": 0}, {"A": 3}, {"AAA$": 1}, {"A$": 32767}, {"a$": 5}, {"A$()": 10, "B$": 20}, {"_$": 1}, {"A$$": 2},
               {"A()": 3}, {"": 1}, {"A$": -1}, {"A$": 10 ** 9}, {"1A$": 4}, {"A1$": 4}, {"A_$()": 7},
               {"$": 5}, {"$()": 5}, {"()": 5}, {"$$": 5}, {" ": 5}, {"A$()()": 5}, {"$A": 5}, {"A$ ": 5}, {" A$": 5}, {"A$(": 5}, {"A$)": 5},
               {"ABC$": 5}, {"A$": 0.5}, {"A$": "x"}, {"A$": None}, {"A$": True}, {"A$": 32768}, {"A$": 1}, {"\u00e9$": 5}, {"A\n$": 5}]


def mutate(rng, lines, nmut):
    lines = [list(l) for l in lines]
    for _ in range(nmut):
        if not lines:
            break
        ln = rng.choice(lines)
        if not ln:
            continue
        op = rng.random()
        i = rng.randrange(len(ln))
        if op < 0.3:
            del ln[i]
        elif op < 0.5:
            ln.insert(i, ln[i])
        elif op < 0.7 and len(ln) > 1:
            j = rng.randrange(len(ln))
            ln[i], ln[j] = ln[j], ln[i]
        else:
            ln.insert(i, (rng.choice(INSERT_POOL), "soft"))
    out = []
    for ln in lines:
        if ln:
            ln[0] = (ln[0][0], "start")
        out.append(join(ln, lambda i, g: rng.choice([0, 1, 1, 1, 2])))
    return rng.choice(["\n", "\n", "\r", "\r\n"]).join(out) + rng.choice(["\n", "", "\n\x00", "\r"])


def gen_text(case):
    rng = random.Random(case["seed"])
    g = progs.ProgGen(rng, max_depth=rng.choice([1, 2, 2, 3]))
    prog = g.program(rng.randint(1, 8))
    return mutate(rng, render_tokens(prog), case["nmut"])


def option_set(rng):
    o = {}
    for k in ("add_standard_prefix", "add_suffix", "default_width32", "filter_unused_linenum", "initialize_vars",
              "output_dependencies", "skip_procedure_headers"):
        if rng.random() < 0.4:
            o[k] = rng.random() < 0.5
    if rng.random() < 0.4:
        o["default_str_storage"] = rng.choice([1, 32, 33, 80, 255, 32767, 0, -1])
    if rng.random() < 0.5:
        # including names of runtime procedures the program itself may call (the program is filed in the same bank)
        o["procname"] = rng.choice(["p", "my-prog", "a_b", "9", "-", "x" * 40, "", "my prog", "é", "a.b", "_ecb_start", "ecb_cls",
                                    "ecb_str", "_ecb_text_address", "ecb_int", "inkey", "program"])
    return o


def run_cli(case):
    """decb_to_b09.start(argv) on a real file; -> outcome dict like harness.convert()."""
    from coco import decb_to_b09

    d = os.path.join(run.WORK, "c15-%d" % os.getpid())
    os.makedirs(d, exist_ok=True)
    src = os.path.join(d, case["stem"] + ".bas")
    dst = os.path.join(d, case["stem"] + ".b09")
    with open(src, "w") as f:
        f.write(case["text"])
    argv = list(case["flags"]) + [src, dst]
    t0 = time.process_time()
    saved = (os.sys.stderr, os.sys.stdout)
    os.sys.stderr = io.StringIO()
    os.sys.stdout = io.StringIO()
    try:
        decb_to_b09.start(argv)
        res = {"ok": True}
    except SystemExit as exc:
        res = {"ok": False, "documented": exc.code == 2, "exc": "SystemExit(%r)" % (exc.code,), "site": None, "stem": ""}
    except OSError as exc:
        res = {"ok": False, "documented": True, "exc": type(exc).__name__, "site": None, "stem": ""}
    except Exception as exc:  # noqa: BLE001
        documented, cls, site, stem = harness.classify_exception(exc)
        res = {"ok": False, "documented": documented, "exc": cls, "site": site, "stem": stem}
    finally:
        os.sys.stderr, os.sys.stdout = saved
        for fn in (src, dst):
            try:
                os.remove(fn)
            except OSError:
                pass
    res["cpu"] = time.process_time() - t0
    return res


class CpuBudget(BaseException):
    """Raised inside the observed call by the virtual-time interval timer: the call used its CPU budget and is abandoned."""


def with_budget(fn):
    """Run fn() under a CPU-time (not wall-clock) limit: a conversion that would never return is cut off and reported, it
    does not take the whole check with it.  The regex engine and the interpreter loop both poll for signals."""
    def on_alarm(signum, frame):
        raise CpuBudget()

    try:
        old = signal.signal(signal.SIGVTALRM, on_alarm)
    except ValueError:                    # not the main thread: no timer, the shard watchdog is all there is
        return fn()
    signal.setitimer(signal.ITIMER_VIRTUAL, CPU_LIMIT + 4)
    try:
        return fn()
    except CpuBudget:
        return {"ok": False, "documented": False, "exc": "CpuBudget", "site": None, "stem": "", "cpu": CPU_LIMIT + 4, "cut_off": True}
    finally:
        signal.setitimer(signal.ITIMER_VIRTUAL, 0)
        signal.signal(signal.SIGVTALRM, old)


def run_case(case):
    obs = {"counters": {"convert_calls": 1}, "viols": [], "sets": {}}
    kind = case["kind"]
    if kind == "cli":
        res = with_budget(lambda: run_cli(case))
        text = case["text"]
        obs["key"] = "cli|" + case["stem"] + "|" + " ".join(case["flags"]) + "|" + text
    else:
        if kind == "mut":
            text = gen_text(case)
            opts = option_set(random.Random(case["seed"] + 7))
        elif kind == "peg":
            # a sentence derived from the grammar object of the tree under observation (see gen/peggen.py)
            from coco.b09 import compiler
            from ..gen import peggen

            g = getattr(compiler.grammar, "_real", compiler.grammar)
            rng = random.Random(case["seed"])
            text = peggen.PegSampler(g, rng, max_depth=rng.choice([10, 14, 18, 22, 30])).gen()
            opts = option_set(rng) if case["seed"] % 3 == 0 else {}
        elif kind == "cfg":
            text = case["text"]
            opts = {}
        else:
            text = case["text"]
            opts = case.get("opts", {})
        obs["key"] = "%s|%s" % (text, sorted(opts.items()))
        if kind == "cfg":
            try:
                from coco.b09.configs import CompilerConfigs, StringConfigs

                cfg = CompilerConfigs(string_configs=StringConfigs(strname_to_size=case["map"]))
                res = with_budget(lambda: harness.convert(text, compiler_configs=cfg, default_str_storage=64))
            except Exception as exc:  # noqa: BLE001
                documented, cls, site, stem = harness.classify_exception(exc)
                res = {"ok": False, "documented": documented, "exc": cls, "site": site, "stem": stem, "cpu": 0}
        else:
            res = with_budget(lambda: harness.convert(text, **opts))
    if res["ok"]:
        obs["counters"]["accepted"] = 1
    elif res["documented"]:
        obs["counters"]["refused"] = 1
        obs["sets"]["refusal_classes"] = [res["exc"]]
    elif res.get("cut_off"):
        obs["counters"]["cut_off"] = 1        # reported below as C15/cpu-budget
    else:
        obs["counters"]["internal"] = 1
        sig = "C15/%s/%s/%s" % (res["exc"], res["site"], (res.get("stem") or "")[:40].strip().replace(" ", "_"))
        if res["exc"] == "RecursionError":
            # Python's recursion limit is reached by expressions nested some 55 levels deep (known finding);
            # the same exception on an ordinary input would be something else entirely
            longest = max(len(ln) for ln in text.replace("\r", "\n").split("\n"))
            depth = cur = 0
            for ch in text:
                if ch == "(":
                    cur += 1
                    depth = max(depth, cur)
                elif ch == ")":
                    cur -= 1
            deep = longest > 200 or depth >= 40 or text.count("IF") >= 40
            sig = "C15/RecursionError/" + ("very-long-nested-line" if deep else "ordinary-input")
        obs["viols"].append({"sig": sig, "detail": {"text": text[:1500], "kind": kind, "outcome": {k: res.get(k) for k in ("exc", "site", "stem", "msg")},
                                                    "flags": case.get("flags"), "stem": case.get("stem")}})
    if res.get("cpu", 0) > CPU_LIMIT:
        obs["viols"].append({"sig": "C15/cpu-budget", "detail": {"text": text[:500], "cpu": res["cpu"]}})
    if case.get("sample"):
        obs["sample"] = {"text": text[:300], "outcome": "accepted" if res["ok"] else res["exc"]}
    return obs


def cases(tier, seed):
    n = 6000 if tier == "quick" else 1000000
    for i in range(n):
        yield {"kind": "mut", "seed": seed * 1000003 + i, "nmut": i % 4, "sample": i % 997 == 0}
    for i in range(3000 if tier == "quick" else 300000):
        yield {"kind": "peg", "seed": seed * 1000033 + i, "sample": i % 1499 == 0}
    for t in scaled_inputs():
        yield {"kind": "text", "text": t, "opts": {}}
    for t in EXTREME:
        yield {"kind": "text", "text": t}
        yield {"kind": "text", "text": t, "opts": {"initialize_vars": True, "filter_unused_linenum": True,
                                                 "output_dependencies": True, "procname": "p-1", "default_str_storage": 80}}
    # the words the library bundler scans the emitted text for (RUN <name>, PROCEDURE <name>, the size tag), inside long
    # literals, remarks and DATA: whatever scans for them is linear in the length of the line
    long_tail = " THE GAME ONE MORE TIME OR PRESS BREAK TO GO BACK TO BASIC AND SAVE YOUR SCORE"
    for head in ("PRESS ENTER TO RUN", "run", "PROCEDURE", "X: STRING<<>>", "RUN ecb_cls \\ RUN"):
        for n_ in (1, 3):
            lit = head + long_tail * n_
            for t in ('10 PRINT "%s"' % lit, '10 A$="%s":PRINT A$;"%s"' % (lit, lit), "10 REM %s" % lit, "10 PRINT 1 '%s" % lit,
                      '10 DATA %s,"%s"\n20 READ A$,B$' % (lit, lit), '10 INPUT "%s";A$' % lit, '10 PLAY "C":PRINT "%s' % lit):
                yield {"kind": "text", "text": t, "opts": {"output_dependencies": True, "procname": "p"}}
                yield {"kind": "text", "text": t, "opts": {"output_dependencies": True, "procname": "p", "default_str_storage": 80, "filter_unused_linenum": True}}
    for m in BAD_CONFIGS:
        yield {"kind": "cfg", "text": '10 DIM A$(3),B$:A$(1)="X"', "map": m}
    rng = random.Random(4242 + seed)
    stems = ["prog", "my-prog", "a_b", "9", "-", "--x", "A-B_c9", "x" * 60, "_", "-z", "0-0", "_ecb_start", "ecb_cls", "ecb_str", "ecb_hex"]
    flagsets = [[], ["-l"], ["-z"], ["-D"], ["-w"], ["-s", "80"], ["-l", "-z", "-D", "-w", "-s", "1"], ["-s", "0"], ["-s", "x"],
                ["-c", "/nonexistent.yaml"], ["-q"]]
    texts = ["10 PRINT \"HI\"\n20 GOTO 10\n", "10 A=.\n", "10 CLS:HSCREEN 2:HBUFF 1,100\n", "", "10 A$=HEX$(1)+STR$(2)\n",
             # characters beyond Latin-1 and beyond the BMP in a remark, a constant and a DATA item (a listing pasted from a web page)
             "10 REM IT\u2019S A MAZE\n20 PRINT \"GO \u2192 EAST\"\n", "10 DATA CAF\u00c9,\u03c0,\U0001F600\n20 READ A$,B$,C$\n", "10 A$=\"\u201cQUOTED\u201d \u2026\"\n"]
    m = 150 if tier == "quick" else 1650
    for i in range(m):
        yield {"kind": "cli", "stem": stems[i % len(stems)], "flags": flagsets[(i // len(stems)) % len(flagsets)],
               "text": texts[i % len(texts)]}
