"""C05 - functions turned into procedure calls are evaluated once, first, and in order.
Dynamic monitor: the sequence of convertible-function call events (name, argument values) of the reference
BASIC09 interpreter running convert() output must equal the left-to-right, innermost-first sequence of the
Color BASIC reference; scripted device values make order and multiplicity change results.  Static monitor:
no emitted statement group reads a tmp_N before the same group assigned it."""
import re

from .. import harness
from ..b09ref import static
from ..cbref.ast import render
from ..gen import exprs as X

PROPERTY = "C05"
LEVEL = "exploration"
USES_REFERENCE_MODELS = True
RULE = ("case = convertible-function nesting (alone, inside itself, inside another convertible, inside each built-in, two "
        "siblings, three deep) x carrier statement (assignment to scalar/element, subscript either side, IF without ELSE / with "
        "ELSE / ELSE IF condition / arm, FOR start/limit/step, PRINT and PRINT@ item and position, ON selector, device operands, "
        "READ/INPUT subscript, loop body, jump target line); the product is enumerated (thorough) or covered by rotation (quick); "
        "distinct = (nesting shape, carrier); non-trivial = both machines ran and call sequences were compared")
ASSUMPTIONS = ["device functions return scripted values 1,2,3,... in call order on both machines",
               "statement group = one physical line of the emitted text (statements joined by backslash)"]
REQUIRED_COUNTERS = ["call_sequences_compared"]

A, B, C = ("var", "A"), ("var", "B"), ("var", "C")
n = X.num


def F(name, *args):
    return ("fn", name, list(args))


def _sum(terms):
    e = terms[0]
    for t in terms[1:]:
        e = ("bin", "+", e, t)
    return e


NUM_EXPRS = [
    ("INT", F("INT", ("bin", "/", C, n(2)))),
    ("VAL", F("VAL", ("str", "12"))),
    ("INSTR", F("INSTR", n(1), ("var", "A$"), ("str", "L"))),
    ("BUTTON", F("BUTTON", n(1))),
    ("JOYSTK", F("JOYSTK", n(0))),
    ("POINT", F("POINT", n(1), n(2))),
    ("INT(INT)", F("INT", F("INT", ("bin", "/", C, n(2))))),
    ("BUTTON(BUTTON)", F("BUTTON", F("BUTTON", n(1)))),
    ("POINT(BUTTON,INT)", F("POINT", F("BUTTON", n(0)), F("INT", A))),
    ("INT(BUTTON)", F("INT", ("bin", "/", F("BUTTON", n(1)), n(2)))),
    ("VAL(STR$)", F("VAL", F("STR$", A))),
    ("VAL(HEX$)", F("VAL", F("HEX$", n(9)))),
    ("INSTR(INT,STR$,STR$)", F("INSTR", F("INT", n(1)), F("STR$", n(12)), F("STR$", n(2)))),
    ("ABS(INT)", F("ABS", F("INT", ("un", "-", ("bin", "/", C, n(2)))))),
    ("SGN(BUTTON)", F("SGN", F("BUTTON", n(2)))),
    ("LEN(STR$)", F("LEN", F("STR$", A))),
    ("LEN(STRING$)", F("LEN", F("STRING$", n(3), ("str", "X")))),
    ("ASC(HEX$)", F("ASC", F("HEX$", n(10)))),
    ("LEN(LEFT$(STR$,INT))", F("LEN", F("LEFT$", F("STR$", n(123)), F("INT", n(2))))),
    ("LEN(MID$(HEX$,BUTTON,INT))", F("LEN", F("MID$", F("HEX$", n(4096)), F("BUTTON", n(0)), F("INT", n(2))))),
    ("ASC(CHR$(INT))", F("ASC", F("CHR$", F("INT", n(65))))),
    ("INT+BUTTON", ("bin", "+", F("INT", ("bin", "/", C, n(2))), F("BUTTON", n(1)))),
    ("BUTTON-BUTTON", ("bin", "-", ("bin", "*", F("BUTTON", n(1)), n(10)), F("BUTTON", n(2)))),
    ("JOYSTK*POINT", ("bin", "+", ("bin", "*", F("JOYSTK", n(0)), n(100)), F("POINT", n(1), n(2)))),
    ("(INT)^INT", ("bin", "^", ("par", F("INT", n(2))), F("INT", n(3)))),
    ("INT(INT(INT))", F("INT", ("bin", "+", F("INT", ("bin", "+", F("INT", A), n(1))), n(1)))),
    ("X(INT)", ("arr", "X", [F("INT", n(2))])),
    ("X(BUTTON)+X(BUTTON)", ("bin", "+", ("arr", "X", [F("BUTTON", n(0))]), ("arr", "X", [F("BUTTON", n(0))]))),
    ("-INT", ("un", "-", F("INT", A))),
    ("INT AND BUTTON", ("bin", "AND", F("INT", n(7)), F("BUTTON", n(0)))),
    ("NOT BUTTON", ("un", "NOT", F("BUTTON", n(0)))),
    ("-JOYSTK", ("un", "-", F("JOYSTK", n(0)))),
    ("+INT", ("un", "+", F("INT", ("bin", "/", C, n(2))))),
    ("BUTTON(0)+BUTTON(0)", ("bin", "+", ("bin", "*", F("BUTTON", n(0)), n(10)), F("BUTTON", n(0)))),
    ("JOYSTK(0)*JOYSTK(0)", ("bin", "*", F("JOYSTK", n(0)), F("JOYSTK", n(0)))),
    ("INT(RND)+INT(RND)", ("bin", "+", ("bin", "*", F("INT", F("RND", n(0))), n(10)), F("INT", F("RND", n(0))))),
    ("POINT(BUTTON(0),BUTTON(0))", F("POINT", F("BUTTON", n(0)), F("BUTTON", n(0)))),
    ("INT(PEEK)-INT(PEEK)", ("bin", "-", F("INT", F("PEEK", n(100))), F("INT", F("PEEK", n(100))))),
    # VAL of texts that are not numbers (the result is 0 - and it IS a result: the temporary is written)
    ("VAL(abc)", F("VAL", ("str", "ABC"))), ("VAL(HEX$)", F("VAL", F("HEX$", n(255)))), ("VAL(A$)+INT", ("bin", "+", F("VAL", ("var", "A$")), F("INT", C))),
]


# many converted calls in ONE statement (more temporaries than any listing in the test suite needs: two-digit numbering)
NUM_EXPRS += [
    ("B*JOYSTK+JOYSTK", ("bin", "+", ("bin", "*", B, F("JOYSTK", n(0))), F("JOYSTK", n(1)))),
    ("BUTTON*2+BUTTON*3+BUTTON", ("bin", "+", ("bin", "+", ("bin", "*", F("BUTTON", n(0)), n(2)), ("bin", "*", F("BUTTON", n(1)), n(3))), F("BUTTON", n(2)))),
    ("LEN(INKEY$)+LEN(INKEY$)*2+BUTTON", ("bin", "+", ("bin", "+", F("LEN", F("INKEY$")), ("bin", "*", F("LEN", F("INKEY$")), n(2))), F("BUTTON", n(0)))),
    ("12xINT", _sum([F("INT", ("bin", "+", A, n(k))) for k in range(12)])),
    ("13xBUTTON", _sum([("bin", "*", F("BUTTON", n(k % 4)), n(k + 1)) for k in range(13)])),
    ("11xLEN(STR$)", _sum([F("LEN", F("STR$", n(10 ** (k % 4)))) for k in range(11)])),
    ("25xJOYSTK", _sum([F("JOYSTK", n(k % 4)) for k in range(25)])),
]
STR_EXPRS = [
    ("STR$", F("STR$", A)),
    ("HEX$", F("HEX$", n(255))),
    ("STRING$", F("STRING$", n(2), ("var", "A$"))),
    ("INKEY$", F("INKEY$")),
    ("STR$(INT)", F("STR$", F("INT", ("bin", "/", C, n(2))))),
    ("HEX$(BUTTON)", F("HEX$", F("BUTTON", n(0)))),
    ("STRING$(INT,HEX$)", F("STRING$", F("INT", n(2)), F("HEX$", n(11)))),
    ("STR$(VAL(STR$))", F("STR$", F("VAL", F("STR$", n(7))))),
    ("LEFT$(STR$,INT)", F("LEFT$", F("STR$", n(123)), F("INT", n(2)))),
    ("MID$(HEX$,INT,BUTTON)", F("MID$", F("HEX$", n(4660)), F("INT", n(2)), F("BUTTON", n(0)))),
    ("RIGHT$(STRING$,INT)", F("RIGHT$", F("STRING$", n(3), ("str", "AB")), F("INT", n(2)))),
    ("CHR$(INT)", F("CHR$", F("INT", n(66)))),
    ("STR$+HEX$", ("bin", "+", F("STR$", n(1)), F("HEX$", n(2)))),
    ("INKEY$+INKEY$", ("bin", "+", F("INKEY$"), F("INKEY$"))),
    ("STR$(BUTTON)+STR$(BUTTON)", ("bin", "+", F("STR$", F("BUTTON", n(0))), F("STR$", F("BUTTON", n(1))))),
    # forms of Color BASIC that the tool refuses today (MID$ without a length, INSTR without a start): dropped as refused
    # now; if a change starts to accept them, the calls inside still run once each, in order
    ("MID$2(STR$(JOYSTK))", F("MID$", F("STR$", F("JOYSTK", n(0))), n(2))),
    ("MID$2(INKEY$+HEX$,INT)", F("MID$", ("bin", "+", F("INKEY$"), F("HEX$", n(255))), F("INT", n(2)))),
    ("STR$(INSTR2(STR$,STR$))", F("STR$", F("INSTR", F("STR$", n(12)), F("STR$", F("BUTTON", n(0)))))),
    ("12xINKEY$", _sum([F("INKEY$") for _ in range(12)])),
    ("K+INKEY$+INKEY$", ("bin", "+", ("bin", "+", ("str", "K"), F("INKEY$")), F("INKEY$"))),
    ("INKEY$+STR$(BUTTON)+INKEY$+HEX$(JOYSTK)", ("bin", "+", ("bin", "+", ("bin", "+", F("INKEY$"), F("STR$", F("BUTTON", n(0)))), F("INKEY$")), F("HEX$", F("JOYSTK", n(1))))),
    ("11xHEX$", _sum([F("HEX$", n(k + 10)) for k in range(11)])),
]

SETUP = [("let", A, n(3), False), ("let", B, n(5), False), ("let", C, n(7), False), ("let", ("var", "A$"), ("str", "HELLO"), False)]
FILL = [("for", "I", n(0), n(20), None), ("let", ("arr", "X", [("var", "I")]), ("bin", "+", ("var", "I"), n(100)), False), ("next", ["I"])]
R = ("var", "R")
RS = ("var", "R$")

NUM_CARRIERS = ["sub_both", "sub_both2", "assign", "assign_elem", "sub_rhs", "sub_lhs", "if_noelse", "if_else", "if_elif_cond", "if_arm", "for_start",
                "for_limit", "for_step", "print_item", "print_at_pos", "on_sel", "dev_cls", "dev_hline", "dev_sound",
                "dev_hcircle", "dev_poke", "read_sub", "read_filter_sub", "input_sub", "loop_body", "jump_target", "two_statements", "width",
                "assign_raw", "assign_elem_raw", "print_raw", "print_item_raw", "print_at_raw", "print_last_raw", "print_many",
                "varptr_sub", "varptr_sub2", "if_nested_false", "if_nested_true", "if_nested_deep",
                "for_limit_step", "for_all_three", "poke_fast", "poke_slow", "poke_fast_hex", "assign_self", "assign_self_elem", "if_rem_then", "if_rem_then2", "self_bare", "if_and_false", "if_and_true", "if_or_true", "if_and_paren", "stale_tmp"]
STR_CARRIERS = ["assign_s", "assign_elem_s", "print_item_s", "print_at_item_s", "if_s_noelse", "if_s_else", "dev_hprint",
                "dev_hdraw", "loop_body_s", "len_assign", "assign_self_s", "if_rem_then_s"]


def carrier(name, e):
    """-> list of program lines (after the setup lines)"""
    one = lambda st: [(30, st)]
    if name == "print_many":
        # a dozen numeric items: each goes through the number formatter, each needs its own temporary
        items = []
        for k in range(12):
            items += [("e", e if k == 5 else [A, B, C, ("arr", "X", [n(k)])][k % 4]), ("sep", ";")]
        return one([("print", items[:-1], None)])
    if name == "assign_raw":
        return one([("let", R, e, False)])
    if name == "assign_elem_raw":
        return one([("let", ("arr", "Y", [n(2)]), e, False)])
    if name == "print_raw":
        return one([("print", [("e", e)], None)])
    if name == "print_item_raw":
        return one([("print", [("e", ("str", "V")), ("sep", ";"), ("e", e), ("sep", ";"), ("e", A)], None)])
    if name == "print_last_raw":
        return one([("print", [("e", A), ("sep", ","), ("e", e), ("sep", ";")], None)])
    if name == "print_at_raw":
        return one([("print", [("e", e), ("sep", ";"), ("e", ("str", "!"))], n(5))])
    if name not in STR_CARRIERS:
        # (numeric expressions ride in parentheses; the tool's grammar has no parenthesised STRING expression, so a string
        # sum rides as it is - wrapped, every string sum of the workload was refused and none of them was ever observed)
        e = e if e[0] in ("fn", "arr", "par") else ("par", e)
    if name == "varptr_sub":
        # the address itself is machine matter (not compared); the calls inside the subscript are not
        return one([("let", ("var", "VP"), ("fn", "VARPTR", [("arr", "X", [("bin", "AND", e, n(7))])]), False)])
    if name == "varptr_sub2":
        return one([("let", ("var", "VP"), ("fn", "VARPTR", [("arr", "Z", [("bin", "+", ("bin", "AND", e, n(3)), n(1)), F("BUTTON", n(0))])]), False)])
    if name == "assign_self":
        # the target is read inside the converted call that is assigned to it, next to the nested calls
        return one([("let", A, F("INT", ("bin", "+", A, e)), False), ("let", R, A, False)])
    if name == "assign_self_elem":
        y2 = ("arr", "Y", [n(2)])
        return one([("let", y2, n(4), False), ("let", y2, F("INT", ("bin", "+", ("bin", "/", y2, n(8)), e)), False)])
    if name == "assign_self_s":
        a_s = ("var", "A$")
        return one([("let", a_s, F("STRING$", ("bin", "-", F("LEN", a_s), n(3)), ("bin", "+", e, a_s)), False), ("let", RS, a_s, False)])
    if name == "assign":
        return one([("let", R, e, False)])
    if name == "assign_elem":
        return one([("let", ("arr", "Y", [n(2)]), e, False)])
    if name == "sub_both":
        return one([("let", ("arr", "Y", [("bin", "AND", F("BUTTON", n(0)), n(7))]), e, False),
                    ("let", ("arr", "Y", [F("JOYSTK", n(1))]), ("bin", "+", e, n(1)), False)])
    if name == "sub_both2":
        return one([("let", ("arr", "Z", [F("BUTTON", n(0)), ("bin", "AND", e, n(3))]), F("INT", ("bin", "/", e, n(2))), False)])
    if name == "sub_rhs":
        return one([("let", R, ("arr", "X", [("bin", "AND", e, n(7))]), False)])
    if name == "sub_lhs":
        return one([("let", ("arr", "Y", [("bin", "AND", e, n(7))]), n(77), False)])
    if name == "if_nested_false":
        # IF without ELSE directly inside IF without ELSE: when the outer condition is false nothing of the inner one runs
        return one([("let", R, n(2), False), ("if", ("bin", "<", A, n(0)),
                                                ("stmts", [("if", ("bin", ">", e, n(1)), ("stmts", [("let", R, n(1), False)]), [], None)]), [], None)])
    if name == "if_nested_true":
        return one([("let", R, n(2), False), ("if", ("bin", ">", A, n(0)),
                                                ("stmts", [("if", ("bin", ">", e, n(1)), ("stmts", [("let", R, n(1), False)]), [], None)]), [], None)])
    if name == "if_nested_deep":
        return one([("let", R, n(2), False), ("if", ("bin", ">", A, n(0)), ("stmts", [("if", ("bin", "<", B, n(0)), ("stmts", [
            ("if", ("bin", ">", e, n(1)), ("stmts", [("let", R, n(1), False)]), [], None)]), [], None)]), [], None)])
    if name == "self_bare":
        # the result variable is the call's own bare operand (one storage for argument and result inside the procedure),
        # negative with a fraction; the expression under test rides along in a second statement
        y3 = ("arr", "Y", [n(3)])
        return one([("let", B, ("un", "-", ("num", 2.5, ["2.5"])), False), ("let", B, F("INT", B), False),
                    ("let", y3, ("un", "-", ("num", 0.25, [".25"])), False), ("let", y3, F("INT", y3), False), ("let", R, ("bin", "+", e, B), False)])
    if name in ("if_and_false", "if_and_true", "if_or_true", "if_and_paren"):
        # AND / OR evaluate both operands in Color BASIC - there is no short circuit: the call in the second operand runs
        # whatever the first one says
        left = {"if_and_false": ("bin", "<", A, n(0)), "if_and_true": ("bin", ">", A, n(0)), "if_or_true": ("bin", ">", A, n(0)),
                "if_and_paren": ("par", ("bin", "<", A, n(0)))}[name]
        op = "OR" if name == "if_or_true" else "AND"
        return [(30, [("let", R, n(2), False), ("if", ("bin", op, left, ("bin", ">", e, n(1))), ("stmts", [("let", R, n(1), False)]), [], None)]),
                (40, [("let", ("var", "Q"), F("BUTTON", n(2)), False)])]
    if name == "stale_tmp":
        # the statement before leaves something in the temporaries this one will use
        return one([("let", R, ("bin", "*", F("INT", ("bin", "/", C, n(2))), F("INT", n(5))), False), ("let", ("var", "Q"), ("bin", "+", e, n(1)), False)])
    if name == "if_rem_then":
        # the THEN part holds nothing but a remark: the condition is evaluated all the same (INKEY$ is read, BUTTON polled)
        return [(30, [("if", ("bin", ">", e, n(1)), ("stmts", [("rem", " DISCARD", "'")]), [], None)]), (40, [("let", R, n(1), False)])]
    if name == "if_rem_then2":
        return [(30, [("let", R, n(2), False), ("if", ("bin", ">", e, n(1)), ("stmts", [("rem", "", "REM")]), [], None)]), (40, [("let", ("var", "Q"), R, False)])]
    if name == "if_rem_then_s":
        return [(30, [("if", ("bin", "<>", e, ("str", "")), ("stmts", [("rem", " TYPE-AHEAD", "'")]), [], None)]), (40, [("let", RS, ("str", "Z"), False)])]
    if name == "if_noelse":
        return one([("let", R, n(2), False), ("if", ("bin", ">", e, n(1)), ("stmts", [("let", R, n(1), False)]), [], None)])
    if name == "if_else":
        return one([("if", ("bin", ">", e, n(1)), ("stmts", [("let", R, n(1), False)]), [], ("stmts", [("let", R, n(2), False)]))])
    if name == "if_elif_cond":
        return one([("if", ("bin", "<", A, n(0)), ("stmts", [("let", R, n(1), False)]),
                     [(("bin", ">", e, n(1)), ("stmts", [("let", R, n(2), False)]))], ("stmts", [("let", R, n(3), False)]))])
    if name == "if_arm":
        return one([("if", ("bin", ">", A, n(0)), ("stmts", [("let", R, e, False), ("let", ("var", "Q"), e, False)]), [],
                     ("stmts", [("let", R, n(0), False)]))])
    if name in ("for_limit_step", "for_all_three"):
        a = n(0) if name == "for_limit_step" else ("bin", "AND", F("BUTTON", n(3)), n(1))
        b = ("bin", "+", ("bin", "AND", e, n(3)), n(2))
        st = ("bin", "+", ("bin", "AND", F("JOYSTK", n(1)), n(1)), n(1))
        return one([("let", ("var", "S"), n(0), False), ("for", "I", a, b, st),
                    ("let", ("var", "S"), ("bin", "+", ("bin", "*", ("var", "S"), n(2)), ("var", "I")), False), ("next", ["I"])])
    if name in ("for_start", "for_limit", "for_step"):
        a, b, s = n(1), n(3), None
        if name == "for_start":
            a, b = ("bin", "AND", e, n(3)), n(5)
        elif name == "for_limit":
            a, b = n(0), ("bin", "AND", e, n(3))
        else:
            a, b, s = n(0), n(6), ("bin", "+", ("bin", "AND", e, n(1)), n(1))
        return one([("let", ("var", "S"), n(0), False), ("for", "I", a, b, s),
                    ("let", ("var", "S"), ("bin", "+", ("bin", "*", ("var", "S"), n(2)), ("var", "I")), False), ("next", ["I"])])
    if name == "print_item":
        return one([("print", [("e", ("str", "V")), ("sep", ";"), ("e", e), ("sep", ";"), ("e", A)], None)])
    if name == "print_at_pos":
        return one([("print", [("e", ("str", "P"))], ("bin", "AND", e, n(31)))])
    if name == "on_sel":
        return [(30, [("let", R, n(0), False), ("on", ("bin", "+", ("bin", "AND", e, n(1)), n(1)), "GOTO", [40, 50]), ("let", R, n(9), False)]),
                (40, [("let", R, n(1), False), ("goto", 60)]), (50, [("let", R, n(2), False)]), (60, [("rem", " END", "REM")])]
    if name == "dev_cls":
        return one([("dev", "CLS", {"c": e})])
    if name == "dev_hline":
        return one([("dev", "HLINE", {"x0": e, "y0": B, "x1": ("bin", "+", e, n(1)), "y1": n(4), "mode": "PSET", "box": None})])
    if name == "dev_sound":
        return one([("dev", "SOUND", {"f": e, "d": e})])
    if name == "dev_hcircle":
        return one([("dev", "HCIRCLE", {"x": n(1), "y": n(2), "r": n(3), "c": None, "ratio": e, "s": None, "e": None})])
    if name in ("poke_fast", "poke_slow", "poke_fast_hex"):
        # the CoCo 3 speed pokes are translated specially (play.octo := ...); the value operand is evaluated all the same
        addr = {"poke_fast": n(65497), "poke_slow": n(65496), "poke_fast_hex": ("hex", 0xFFD9, "FFD9")}[name]
        return one([("dev", "POKE", {"a": addr, "v": ("bin", "AND", e, n(1))}), ("let", R, F("JOYSTK", n(1)), False)])
    if name == "dev_poke":
        return one([("dev", "POKE", {"a": ("bin", "+", n(1000), e), "v": e})])
    if name == "width":
        return one([("dev", "WIDTH", {"n": ("bin", "+", ("bin", "*", ("bin", "AND", e, n(0)), n(1)), n(40))})])
    if name == "read_sub":
        return [(30, [("read", [("arr", "Y", [("bin", "AND", e, n(7))])])]), (35, [("data", [("n", 55.0, ["55"])])])]
    if name == "read_filter_sub":
        # the program has an empty DATA item, so every numeric READ target goes through the filter procedure: the calls in
        # the first target's subscript run while the second target's item waits in its own temporary
        return [(30, [("read", [("arr", "Y", [("bin", "AND", e, n(7))]), R])]), (35, [("data", [("n", 55.0, ["55"]), ("n", 66.0, ["66"]), ("u", "")])])]
    if name == "input_sub":
        return one([("input", None, [("arr", "Y", [("bin", "AND", e, n(7))])], False)])
    if name == "loop_body":
        return one([("let", R, n(0), False), ("for", "I", n(1), n(3), None), ("let", R, ("bin", "+", ("bin", "*", R, n(10)), e), False), ("next", ["I"])])
    if name == "jump_target":
        return [(30, [("goto", 50)]), (40, [("end",)]), (50, [("let", R, e, False), ("goto", 40)])]
    if name == "two_statements":
        return one([("let", R, e, False), ("let", ("var", "Q"), ("bin", "+", e, n(1)), False)])
    # string carriers
    if name == "assign_s":
        return one([("let", RS, e, False)])
    if name == "assign_elem_s":
        return one([("let", ("arr", "S$", [n(1)]), e, False)])
    if name == "print_item_s":
        return one([("print", [("e", e), ("sep", ";"), ("e", ("str", "|")), ("sep", ";"), ("e", e)], None)])
    if name == "print_at_item_s":
        return one([("print", [("e", e)], n(5))])
    if name == "if_s_noelse":
        return one([("let", R, n(2), False), ("if", ("bin", "<>", e, ("str", "")), ("stmts", [("let", R, n(1), False)]), [], None)])
    if name == "if_s_else":
        return one([("if", ("bin", "<>", e, ("str", "")), ("stmts", [("let", R, n(1), False)]), [], ("stmts", [("let", R, n(2), False)]))])
    if name == "dev_hprint":
        return one([("dev", "HPRINT", {"x": n(1), "y": n(2), "t": e})])
    if name == "dev_hdraw":
        return one([("dev", "HDRAW", {"s": e})])
    if name == "loop_body_s":
        return one([("let", RS, ("str", ""), False), ("for", "I", n(1), n(2), None), ("let", RS, ("bin", "+", RS, e), False), ("next", ["I"])])
    if name == "len_assign":
        return one([("let", R, ("fn", "LEN", [e]), False)])
    raise ValueError(name)


MAP = {"INT": "ecb_int", "VAL": "ecb_val", "STR$": "ecb_str", "PRINTNUM": "ecb_str", "HEX$": "ecb_hex", "INSTR": "ecb_instr",
       "STRING$": "ecb_string", "BUTTON": "ecb_button", "JOYSTK": "ecb_joystk", "POINT": "ecb_point", "INKEY$": "inkey"}
NARGS = {"ecb_int": 1, "ecb_val": 1, "ecb_str": 1, "ecb_hex": 1, "ecb_instr": 3, "ecb_string": 2, "ecb_button": 1, "ecb_joystk": 1,
         "ecb_point": 2, "inkey": 0}


def norm(v):
    if isinstance(v, str):
        return v
    try:
        return float(v)
    except (TypeError, ValueError):
        return v


def expected_seq(cb_events):
    out = []
    for ev in cb_events:
        if ev[0] == "call" and ev[1] in MAP:
            name = MAP[ev[1]]
            out.append((name, tuple(norm(a) for a in ev[2][:NARGS[name]])))
    return out


def actual_seq(b_events):
    out = []
    for ev in b_events:
        if ev[0] == "libcall" and ev[1] in NARGS:
            out.append((ev[1], tuple(norm(a) for a in ev[2][:NARGS[ev[1]]])))
        elif ev[0] == "run" and ev[1] in NARGS:
            out.append((ev[1], tuple(norm(a) for a in ev[2][:NARGS[ev[1]]])))
    return out


def is_subseq(a, b):
    it = iter(b)
    return all(x in it for x in a)


_TMP = re.compile(r"^tmp_\d+\$?$")


def static_tmp_check(out):
    """-> list of (line text, tmp name) where a temporary is read before the same physical line assigned it."""
    procs, err = harness.parse_b09(out)
    if procs is None:
        return None
    main = procs[-1]
    bad = []
    by_line = {}
    for s in main.body:
        by_line.setdefault(s.line, []).append(s)
    text_lines = out.split("\n")
    for ln, stmts in sorted(by_line.items()):
        assigned = set()
        for s in stmts:
            reads, writes = [], []

            def refs(e, acc):
                static.walk(e, lambda x: acc.append(x[1]) if x[0] == "ref" and _TMP.match(x[1]) else None)

            if s.k == "run":
                for i, a in enumerate(s.args):
                    if a[0] == "ref" and not a[2] and _TMP.match(a[1]) and i == len(s.args) - 1:
                        writes.append(a[1])
                    else:
                        refs(a, reads)
            elif s.k == "assign":
                refs(s.e, reads)
                if _TMP.match(s.lv[1]) and not s.lv[2]:
                    writes.append(s.lv[1])
                else:
                    refs(s.lv, reads)
            elif s.k == "read":
                for t in s.targets:
                    if _TMP.match(t[1]) and not t[2]:
                        writes.append(t[1])
                    else:
                        refs(t, reads)
            elif s.k == "for":
                refs(s.a, reads)
                refs(s.b, reads)
                if s.s is not None:
                    refs(s.s, reads)
                if _TMP.match(s.var):
                    writes.append(s.var)
            elif s.k == "next":
                pass
            else:
                for role, e in static.stmt_exprs(s):
                    refs(e, reads)
            for r in reads:
                if r not in assigned:
                    bad.append((text_lines[ln - 1][:160], r, s.k))
            assigned.update(writes)
    return bad


def random_expr(case):
    """Seeded random nesting of convertible, built-in and device functions (beyond the enumerated shapes); the known
    grouping / integer-division triggers are removed so that only call handling is judged."""
    import random

    rng = random.Random(case["seed"])
    g = X.ExprGen(rng, num_vars=["A", "B", "C"], str_vars=["A$"], num_arrays=[("X", 1)], conv=True, device_funcs=True, logic=False,
                  literals=[X.num(v) for v in (1, 2, 3, 7, 12)])
    for _ in range(20):
        e = g.num(rng.choice([2, 3, 3, 4])) if case["kind"] == "num" else g.str(rng.choice([2, 3]))
        if X.all_fns(e) & {"INT", "VAL", "STR$", "HEX$", "INSTR", "STRING$", "INKEY$", "BUTTON", "JOYSTK", "POINT"}:
            break
    e = X.realify_divisions(X.dehazard(e))
    from ..cbref.ast import render_expr
    return "random:" + X.shape_key(e), e


def run_case(case):
    obs = {"counters": {}, "viols": [], "sets": {}}
    kind = case["kind"]
    pool = NUM_EXPRS if kind == "num" else STR_EXPRS
    if "seed" in case:
        ename, e = random_expr(case)
    else:
        ename, e = pool[case["expr"]]
    cname = case["carrier"]
    prog = [(5, [("dim", [("X", [20], ["20"]), ("Y", [20], ["20"]), ("S$", [5], ["5"]), ("Z", [20, 5], ["20", "5"])])]), (10, SETUP), (20, FILL)] + carrier(cname, e)
    text = render(prog)
    obs["key"] = "%s|%s" % (ename, cname)
    obs["sets"]["carriers"] = [cname]
    inputs = [4, 5, 6]
    from ..cbref import interp as cbi

    # the spelling of STR$ results (extra blanks) is C01's known finding; here only calls matter, so the source side
    # emulates it and values stay comparable
    cbi.HYPOTHESIS.add("STR$-trailing-blank")
    try:
        cb = harness.run_cb(prog, inputs=inputs)
    finally:
        cbi.HYPOTHESIS.discard("STR$-trailing-blank")
    conv = harness.convert(text, initialize_vars=case.get("init", True))
    if cb["status"] != "ok" or not conv["ok"]:
        obs["nontrivial"] = False
        obs["counters"]["dropped_source_" + cb["status"] if cb["status"] != "ok" else ("refused" if conv["documented"] else "internal_error")] = 1
        return obs
    emitted = [ln for ln in conv["out"].split("\n")]
    tail = "\n".join(emitted[-12:])
    detail = {"source": "\n".join(text.split("\n")[3:])[:400], "emitted": tail[-700:], "nesting": ename, "carrier": cname}
    cls = "IF-ELSE" if cname in ("if_else", "if_elif_cond", "if_s_else") else (
        "READ-INPUT-subscript" if cname in ("read_sub", "input_sub") else cname)
    if cname in ("print_item", "print_raw", "print_item_raw", "print_last_raw", "print_at_raw", "print_many") and e[0] in ("bin", "un", "par"):
        cls = "PRINT-item-compound-numeric"
    # static monitor
    bad = static_tmp_check(conv["out"])
    if bad is None:
        obs["viols"].append({"sig": "C05/unparseable-output/" + cls, "detail": detail})
        return collapse(obs, cls)
    if bad:
        obs["viols"].append({"sig": "C05/static/tmp-read-before-assignment/" + cls, "detail": dict(detail, reads=bad[:3])})
    b = harness.run_b09(conv["out"], inputs=inputs)
    exp = expected_seq(cb["events"])
    if b["status"] != "ok":
        obs["viols"].append({"sig": "C05/b09-%s/%s" % (b["status"], cls), "detail": dict(detail, error=b["error"])})
        return collapse(obs, cls)
    got = actual_seq(b["events"])
    obs["counters"]["call_sequences_compared"] = 1
    obs["counters"]["calls_expected"] = len(exp)
    if exp != got:
        if len(got) < len(exp) and is_subseq(got, exp):
            what = "lost-call"
        elif len(got) > len(exp) and is_subseq(exp, got):
            what = "extra-call"
        elif sorted(map(str, exp)) == sorted(map(str, got)):
            what = "order"
        elif [x[0] for x in exp] == [x[0] for x in got]:
            what = "arguments"
        else:
            what = "sequence"
        obs["viols"].append({"sig": "C05/%s/%s" % (what, cls), "detail": dict(detail, expected=str(exp)[:300], got=str(got)[:300])})
    diffs = [d for d in harness.compare_stores(cb["store"], b["store"]) if d[0] not in ("I", "VP")]
    if diffs and exp == got:
        obs["viols"].append({"sig": "C05/result-misrouted/" + cls, "detail": dict(detail, diffs=diffs[:4])})
    if b["uninit"] and case.get("init", True):
        tm = [u for u in b["uninit"] if u.startswith("tmp_")]
        if tm and exp == got and not bad:
            obs["viols"].append({"sig": "C05/uninitialised-temporary/" + cls, "detail": dict(detail, names=tm[:4])})
    if case.get("sample"):
        obs["sample"] = {"source": detail["source"], "call_sequence": str(exp)[:300]}
    return collapse(obs, cls)


def collapse(obs, cls):
    """The two carriers whose hoisting is known to be broken (pinned by tests) are reported under one signature
    per mechanism, whatever the symptom; every other carrier keeps the symptom in its signature."""
    if cls in ("IF-ELSE", "READ-INPUT-subscript"):
        if obs["viols"]:
            v = obs["viols"][0]
            v["detail"]["symptoms"] = [x["sig"] for x in obs["viols"]]
            v["sig"] = "C05/known-carrier/" + cls
            obs["viols"] = [v]
    return obs


def cases(tier, seed):
    k = 0
    for ci, cname in enumerate(NUM_CARRIERS):
        for ei in range(len(NUM_EXPRS)):
            k += 1
            if tier == "quick" and (ei + ci) % 3 and ei > 5:
                continue
            yield {"kind": "num", "expr": ei, "carrier": cname, "init": k % 2 == 0, "sample": k % 150 == 0}
    for ci, cname in enumerate(STR_CARRIERS):
        for ei in range(len(STR_EXPRS)):
            k += 1
            if tier == "quick" and (ei + ci) % 2 and ei > 3:
                continue
            yield {"kind": "str", "expr": ei, "carrier": cname, "init": k % 2 == 0, "sample": k % 150 == 0}
    nr = 300 if tier == "quick" else 30000
    for i in range(nr):
        if i % 3:
            yield {"kind": "num", "seed": seed * 7907 + i, "carrier": NUM_CARRIERS[i % len(NUM_CARRIERS)], "init": i % 2 == 0}
        else:
            yield {"kind": "str", "seed": seed * 7907 + i, "carrier": STR_CARRIERS[i % len(STR_CARRIERS)], "init": i % 2 == 0}
