"""C19 - damaged image files are reported, never silently decoded to a broken image.
Fault enumeration: every prefix of small valid files, single-byte corruption of header and compression
control bytes, appended garbage, random byte strings; the conservation monitor of C18 decides whether what
the decoder left behind is a complete image, the boundary wrapper whether it reported failure."""
import random

from ..img import decoders as D
from ..img import model as M
from ..img import observe

PROPERTY = "C19"
LEVEL = "fault_enumeration"
RULE = ("case = one damaged byte string for one decoder: every prefix of small valid files (small geometries for HRS/MAX/PIX, "
        "maximally compressible pictures for MGE-RLE/RAT/CM3/squashed VEF), every k-th prefix plus all header boundaries of "
        "full-size raw files, each header byte and each compression control byte set to {0,1,127,128,255,+1,-1}, appended "
        "garbage, random strings; verdict per case: failed | complete image | incomplete (violation); distinct = (format, "
        "variant, damage kind, position); non-trivial = all")
ASSUMPTIONS = ["failure = exception, non-zero exit, or MAX's documented False result with the output removed",
               "never hangs = CPU per case <= 30 s (typical 0.01-0.3 s)"]
REQUIRED_COUNTERS = ["verdicts"]
CPU_LIMIT = 30.0

_BASE_CACHE = {}


def base_file(fmt, variant):
    """Small valid file per (format, variant) + list of interesting byte positions (control bytes)."""
    key = (fmt, variant)
    if key in _BASE_CACHE:
        return _BASE_CACHE[key]
    rng = random.Random(hash(key) & 0xFFFF)
    rng = random.Random(sum(ord(c) for c in fmt + variant))
    pal = M.rand_palette(rng)
    args = []
    ctrl = []
    if fmt == "hrs":
        w, h = {"small": (8, 3), "odd": (7, 6), "odd-wide": (319, 4), "one": (1, 5), "default": (320, 192), "skip": (8, 3)}[variant]
        data = M.enc_hrs(M.rand_pixels(rng, w, h, "random"), pal, w, h)
        args = [] if variant == "default" else ["-w", str(w), "-r", str(h)]
        ctrl = list(range(16))
        if variant == "skip":
            # bytes in front of the picture that -s tells the decoder to pass over: a file that ends inside them is damaged too
            data = bytes(rng.randrange(256) for _ in range(9)) + data
            args += ["-s", "9"]
            ctrl = list(range(9, 25))
    elif fmt == "pix":
        data = M.enc_pix(M.rand_pixels(rng, 6, 6, "random"), 6)
    elif fmt == "max":
        cols, rows = 16, 3
        bits = M.rand_pixels(rng, cols, rows, "random", 2)
        if variant == "newsroom":
            data = M.enc_max(bits, cols, rows, True)
            args = ["-newsroom"]
            ctrl = [0, 1]
        elif variant == "odd-bytes":
            cols, rows = 24, 5
            bits = M.rand_pixels(rng, cols, rows, "random", 2)
            data = M.enc_max(bits, cols, rows)
            args = ["-w", "24", "-rb"]
            ctrl = [0, 1, 2, 3, 4]
        elif variant == "ignore":
            data = M.enc_max(bits, cols, rows)
            args = ["-w", "16", "-i"]
            ctrl = [0, 1, 2, 3, 4]
        elif variant == "skip":
            data = bytes(rng.randrange(256) for _ in range(7)) + M.enc_max(bits, cols, rows)
            args = ["-w", "16", "-s", "7"]
            ctrl = [7, 8, 9, 10, 11]
        elif variant in ("rows", "rows-more", "rows-ignore"):
            # the height given on the command line (the file's own, more than the file holds, with header errors ignored)
            cols, rows = 16, 6
            bits = M.rand_pixels(rng, cols, rows, "random", 2)
            data = M.enc_max(bits, cols, rows)
            args = {"rows": ["-w", "16", "-r", "6"], "rows-more": ["-w", "16", "-r", "9", "-rb"], "rows-ignore": ["-w", "16", "-r", "6", "-i"]}[variant]
            ctrl = [0, 1, 2, 3, 4]
        else:
            data = M.enc_max(bits, cols, rows)
            args = ["-w", "16"] + (["-br2"] if variant == "br2" else [])
            ctrl = [0, 1, 2, 3, 4]
    elif fmt == "mge":
        pix = M.rand_pixels(rng, 320, 200, "flatrows" if variant == "rle" else "random")
        if variant == "rle":
            data = M.enc_mge(pix, pal, True, True, rng, "maximal")
            ctrl = list(range(0, 51)) + list(range(51, len(data), 2))
        else:
            data = M.enc_mge(pix, pal, variant != "cmp", False)
            ctrl = list(range(0, 51))
    elif fmt == "rat":
        pix = M.rand_pixels(rng, 320, 199, "zero" if variant == "flat" else "flatrows")
        data, esc = M.enc_rat(pix, pal, rng, "maximal")
        ctrl = list(range(19)) + [i for i in range(19, len(data)) if data[i] == esc] + \
            [i + 1 for i in range(19, len(data) - 1) if data[i] == esc]
    elif fmt == "cm3":
        two = variant.startswith("two")
        pix = M.rand_pixels(rng, 320, 384 if two else 192, "zero")
        data = M.enc_cm3(pix, pal, two, "nopat" in variant, rng, "coded" if "coded" in variant else "raw")
        hl = 30 + (0 if "nopat" not in variant else 0)
        ctrl = list(range(0, 30))
        # line-count bytes and the first control bytes
        hdr = 30 + (243 if (data[0] & 1) == 0 else 0)
        ctrl += [hdr, hdr + 1, hdr + 2, hdr + 22, hdr + 23]
    elif fmt == "vef":
        vt = int(variant[1])
        w, h, ncol, rec, ppb = M.VEF_TYPES[vt]
        sq = variant.endswith("s")
        pix = M.rand_pixels(rng, w, h, "zero" if sq else "random", ncol)
        data = M.enc_vef(pix, pal, vt, sq, rng, "maximal")
        ctrl = list(range(18)) + (list(range(18, min(len(data), 18 + 60))) if sq else [])
    else:
        raise ValueError(fmt)
    _BASE_CACHE[key] = (data, args, sorted(set(i for i in ctrl if 0 <= i < len(data))))
    return _BASE_CACHE[key]


VARIANTS = {
    "hrs": ["small", "odd", "odd-wide", "one", "default", "skip"], "pix": ["small"], "max": ["hdr5", "br2", "newsroom", "ignore", "odd-bytes", "rows", "rows-more", "rows-ignore", "skip"], "mge": ["rle", "raw", "cmp"],
    "rat": ["flat", "rows"], "cm3": ["one-coded", "one-raw", "two-coded-nopat", "two-raw"],
    "vef": ["t0s", "t0r", "t1s", "t1r", "t3s", "t3r"],
}


def damaged(case):
    data, args, ctrl = base_file(case["fmt"], case["variant"])
    d = case["damage"]
    if d == "prefix":
        return data[:case["pos"]], args
    if d == "corrupt":
        b = bytearray(data)
        i = case["pos"]
        v = case["val"]
        if v == "+1":
            b[i] = (b[i] + 1) & 255
        elif v == "-1":
            b[i] = (b[i] - 1) & 255
        else:
            b[i] = v
        return bytes(b), args
    if d == "corrupt+tail":
        # two faults together: a header / control byte raised, and surplus data behind the picture (a copy of the file's
        # own last part, so that it decodes like picture data): a count that claims more than the picture holds finds food
        b = bytearray(data)
        i = case["pos"]
        v = case["val"]
        b[i] = (b[i] + 1) & 255 if v == "+1" else v
        tail = bytes(data[-min(len(data) // 2, 6000):])
        return bytes(b) + tail * 3, args
    if d == "append":
        rng = random.Random(case["pos"])
        return data + bytes(rng.randrange(256) for _ in range(case["pos"])), args
    if d == "random":
        rng = random.Random(case["pos"])
        return bytes(rng.randrange(256) for _ in range(rng.choice([0, 1, 5, 18, 19, 50, 300, 2000]))), args
    if d == "intact":
        return data, args
    raise ValueError(d)


def run_case(case):
    fmt = case["fmt"]
    data, args = damaged(case)
    obs = {"key": "%(fmt)s|%(variant)s|%(damage)s|%(pos)s|%(val)s" % dict(case, val=case.get("val")) + ("|stdout" if case.get("stdout") else ""),
           "counters": {"verdicts": 1}, "viols": [], "sets": {"formats": ["%s/%s" % (fmt, case["variant"])]}}
    if case.get("stdout"):
        # the picture goes to standard output (a real subprocess): there is no file to remove, so the exit status and the
        # stream are all a caller has.  Exit status 0 with nothing on the stream is a failure nobody was told about.
        from . import c18

        r = c18.piped(fmt, data, args, False, True)
        res = {"status": "ok" if r["rc"] == 0 else "exit", "code": r["rc"], "exc": None, "out": r["out"], "out_exists": True, "cpu": 0.0}
        obs["counters"]["stdout_runs"] = 1
        if r["rc"] == 0 and not r["out"]:
            obs["counters"]["verdict_silent"] = 1
            obs["viols"].append({"sig": "C19/%s/%s/exit-0-with-empty-stdout" % (fmt, case["variant"] if fmt in ("max", "vef") else fmt),
                                 "detail": {"case": case, "args": args, "input_bytes": len(data)}})
            return obs
    else:
        res = D.decode(fmt, data, args)
    cl = observe.classify(fmt, res)
    obs["counters"]["verdict_" + cl["kind"]] = 1
    detail = {"case": case, "args": args, "input_bytes": len(data),
              "outcome": {k: v for k, v in cl.items() if k not in ("img", "png")}}
    if res["cpu"] > CPU_LIMIT:
        obs["viols"].append({"sig": "C19/%s/cpu-budget" % fmt, "detail": dict(detail, cpu=res["cpu"])})
    if cl["kind"] in ("incomplete", "garbage"):
        if cl["kind"] == "garbage":
            sym = "garbage"
        else:
            sym = "too-few-samples" if cl["written"] < cl["announced"] else "too-many-samples"
        if case["damage"] == "intact":
            sym = "intact-file-" + sym
        obs["viols"].append({"sig": "C19/%s/%s/success-with-%s" % (fmt, case["variant"] if fmt in ("max", "vef") else fmt, sym),
                             "detail": detail})
    elif cl["kind"] == "failed" and fmt == "max" and "-i" not in args and res["status"] == "ok" and res.get("out_exists"):
        obs["viols"].append({"sig": "C19/max/failure-leaves-output", "detail": detail})
    if case.get("sample"):
        obs["sample"] = {"format": fmt, "variant": case["variant"], "damage": case["damage"], "position": case["pos"],
                         "input_bytes": len(data), "verdict": cl["kind"], "why": cl.get("why")}
    return obs


def cases(tier, seed):
    q = tier == "quick"
    n = 0
    for fmt, variants in VARIANTS.items():
        for variant in variants:
            data, args, ctrl = base_file(fmt, variant)
            L = len(data)
            yield {"fmt": fmt, "variant": variant, "damage": "intact", "pos": 0}
            if L <= 1500:
                step = 1
            else:
                step = max(1, L // (40 if q else 1500))
            positions = set(range(0, L, step)) | set(range(0, min(L, 60))) | set(range(max(0, L - 40), L)) | set(i + 1 for i in ctrl)
            for pos in sorted(p for p in positions if 0 <= p < L):
                n += 1
                yield {"fmt": fmt, "variant": variant, "damage": "prefix", "pos": pos, "sample": n % 500 == 1}
            cpos = ctrl if (not q or len(ctrl) <= 40) else ctrl[:30] + ctrl[30::max(1, len(ctrl) // 20)]
            # the control bytes of the LAST runs are always damaged too (a stretched final run overshoots the picture)
            cpos = sorted(set(cpos) | set(sorted(ctrl)[-8:]))
            for pos in cpos:
                for val in (0, 1, 127, 128, 255, "+1", "-1"):
                    if q and val in (1, 127) and pos > 20:
                        continue
                    n += 1
                    yield {"fmt": fmt, "variant": variant, "damage": "corrupt", "pos": pos, "val": val,
                           "sample": n % 500 == 1}
            for pos in (cpos if len(cpos) <= 60 else cpos[:40] + cpos[-8:]):
                for val in ("+1", 255, 200):
                    yield {"fmt": fmt, "variant": variant, "damage": "corrupt+tail", "pos": pos, "val": val}
            if fmt in ("hrs", "max", "mge", "rat", "cm3"):
                # the same faults with the picture on standard output (prefixes at a handful of places, one corrupted header)
                yield {"fmt": fmt, "variant": variant, "damage": "intact", "pos": 0, "stdout": True}
                for pos in sorted({0, 1, 2, 4, min(6, L - 1), L // 3, L // 2, L - L // 8, L - 1} if q else set(range(0, L, max(1, L // 40))) | {1, 2, 4, L - 1}):
                    if 0 <= pos < L:
                        yield {"fmt": fmt, "variant": variant, "damage": "prefix", "pos": pos, "stdout": True}
                if ctrl:
                    yield {"fmt": fmt, "variant": variant, "damage": "corrupt", "pos": ctrl[0], "val": 255, "stdout": True}
            for k in (1, 2, 17, 1000):
                yield {"fmt": fmt, "variant": variant, "damage": "append", "pos": k}
            for k in range(6 if q else 60):
                yield {"fmt": fmt, "variant": variant, "damage": "random", "pos": seed * 1000 + k}
