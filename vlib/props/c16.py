"""C16 - decoders reproduce every pixel and palette entry of an uncompressed image.
Oracle: reference encoder -> real decoder -> independent reader == reference rendering."""
import random

from ..img import decoders as D
from ..img import model as M
from ..img import observe, pnm

PROPERTY = "C16"
LEVEL = "exploration"
RULE = ("case = one image model (pixel array kind x palette) in one uncompressed layout: HRS (default and -w/-r), PIX sides, "
        "MAX x 9 pixel modes x {5-byte header, -newsroom, -s}, raw MGE x {RGB, CMP}, raw CM3 x {1,2 pages} x {with, without "
        "patterns}, raw VEF types 0/1/3; the 64 shifted palettes put every colour code in every slot; every pixel compared; "
        "distinct = (layout variant, pixel kind, palette); non-trivial = all")
ASSUMPTIONS = [
    "CoCo 3 colour code R1 G1 B1 R0 G0 B0, component = (hi*2+lo)*85 (independent statement in vlib/img/model.py)",
    "MGE composite->RGB table c2r and the MAX artifact filter (-br/-rb) are snapshots: changes are detected, original correctness is not",
]
REQUIRED_COUNTERS = ["pixels_compared"]


def shifted_palette(k):
    return [(k + slot) % 64 for slot in range(16)]


def compare_rgb(got_rows, exp_rows):
    n = 0
    for y, (g, e) in enumerate(zip(got_rows, exp_rows)):
        if g != e:
            for x, (a, b) in enumerate(zip(g, e)):
                if tuple(a) != tuple(b) if not isinstance(a, int) else a != b:
                    return n, (x, y, a, b)
            if len(g) != len(e):
                return n, (min(len(g), len(e)), y, "row length %d" % len(g), len(e))
        n += len(e)
    if len(got_rows) != len(exp_rows):
        return n, (0, min(len(got_rows), len(exp_rows)), "rows %d" % len(got_rows), len(exp_rows))
    return n, None


def build(case):
    """-> (fmt, data, args, expected rows, variant name)"""
    rng = random.Random(case["seed"])
    fmt = case["fmt"]
    pal = shifted_palette(case["pal"]) if case.get("pal") is not None else M.rand_palette(rng)
    if case.get("flatpal") is not None:
        # degenerate but legal palettes: every slot the same colour, the first four the same, all zero, two colours only
        fp = case["flatpal"]
        pal = {"all": [pal[3]] * 16, "first4": [pal[5]] * 4 + pal[4:], "zero": [0] * 16, "two": [pal[1], pal[2]] * 8, "white": [63] * 16}[fp]
    if case.get("highbits"):
        # bits 6 and 7 of a palette register are don't-care on the hardware: files carry them, the colour is the low six bits
        pal = [v | rng.choice([64, 128, 192]) for v in pal]
    kind = case.get("kind", "random")
    if fmt == "hrs":
        w, h = case.get("w", 320), case.get("h", 192)
        pix = M.rand_pixels(rng, w, h, kind)
        args = []
        if w != 320:
            args += ["-w", str(w)]
        if h != 192:
            args += ["-r", str(h)]
        skip = case.get("skip", 0)
        if skip:
            args += ["-s", str(skip)]
        return fmt, M.enc_hrs(pix, pal, w, h, skip), args, M.expected_rgb(pix, pal), "hrs w%d h%d s%d" % (w, h, skip)
    if fmt == "pix":
        side = case["side"]
        grid = M.rand_pixels(rng, side, side, kind)
        return fmt, M.enc_pix(grid, side), [], M.expected_pix(grid), "pix %d" % side
    if fmt == "max":
        cols, rows, mode = case["cols"], case["rows"], case["mode"]
        bits = M.rand_pixels(rng, cols, rows, kind if kind in ("random", "zero", "max", "alt", "corners", "runs") else "random", 2)
        args = list(M.MAX_MODES[mode])
        newsroom = case.get("newsroom", False)
        skip = case.get("skip", 0)
        if newsroom:
            args.append("-newsroom")
        elif cols != 256:
            args += ["-w", str(cols)]
        if skip:
            args += ["-s", str(skip)]
        load = case.get("load", 0x0E00)
        return fmt, M.enc_max(bits, cols, rows, newsroom, skip, load=load), args, M.expected_max(bits, cols, rows, mode), \
            "max %s %s s%d%s" % (mode, "newsroom" if newsroom else "hdr5", skip, "" if load == 0x0E00 else " load%04X" % load)
    if fmt == "mge":
        pix = M.rand_pixels(rng, 320, 200, kind)
        rgb = case["rgb"]
        M.MGE_FLAG[0] = case.get("flag", 1)
        M.MGE_TITLE[0] = case["title"].encode("latin-1") if case.get("title") is not None else None
        try:
            data = M.enc_mge(pix, pal, rgb, False)
        finally:
            M.MGE_FLAG[0] = 1
            M.MGE_TITLE[0] = None
        return fmt, data, [], M.expected_mge(pix, pal, rgb), "mge raw %s flag%d%s" % ("rgb" if rgb else "cmp", case.get("flag", 1), " title%r" % case["title"] if case.get("title") is not None else "")
    if fmt == "cm3":
        two, pat = case["two"], case["pat"]
        pix = M.rand_pixels(rng, 320, 384 if two else 192, kind)
        M.CM3_EXTRA[0] = case.get("cm3x")
        try:
            data = M.enc_cm3(pix, pal, two, pat, rng, "raw")
        finally:
            M.CM3_EXTRA[0] = None
        return fmt, data, [], M.expected_rgb(pix, pal), "cm3 raw p%d m%d%s" % (2 if two else 1, pat, " x%s" % (case["cm3x"][3:],) if case.get("cm3x") else "")
    if fmt == "vef":
        vt = case["vt"]
        w, h, ncol, rec, ppb = M.VEF_TYPES[vt]
        pix = M.rand_pixels(rng, w, h, kind, ncol)
        return fmt, M.enc_vef(pix, pal, vt, False), [], ("vef", M.expected_vef(pix, pal, vt), w, h), "vef raw t%d" % vt
    raise ValueError(fmt)


def check_vef(cl, exp):
    _, codes, w, h = exp
    p = cl["png"]
    want_h = h * (2 if w == 640 else 1)          # only the 640-wide screen types are written with doubled rows
    if p["width"] != w or p["height"] != want_h:
        return 0, ("size", 0, (p["width"], p["height"]), (w, want_h))
    stretch = p["height"] // h
    n = 0
    pal = p["palette"]
    for y in range(p["height"]):
        row = p["rows"][y]
        erow = codes[y // stretch]
        for x in range(w):
            got = tuple(pal[row[x]][:3]) if p["colortype"] == 3 else tuple(row[x][:3])
            if got != M.rgb6(erow[x]):
                return n, (x, y, got, M.rgb6(erow[x]))
            n += 1
    return n, None


def run_case(case):
    fmt, data, args, exp, variant = build(case)
    obs = {"key": "%s|%s|%s%s" % (variant, case.get("kind"), case.get("pal"), "|" + case["flatpal"] if case.get("flatpal") else ""), "counters": {"decodes": 1}, "viols": [],
           "sets": {"variants": [variant]}}
    res = D.decode(fmt, data, args)
    cl = observe.classify(fmt, res)
    detail = {"case": case, "variant": variant, "args": args}
    if cl["kind"] != "complete":
        obs["viols"].append({"sig": "C16/%s/no-complete-image/%s" % (fmt, cl["kind"]),
                             "detail": dict(detail, outcome={k: v for k, v in cl.items() if k not in ("img", "png")})})
        return obs
    if fmt == "vef":
        n, bad = check_vef(cl, exp)
    else:
        rows = pnm.pixels_rgb(cl["img"])
        n, bad = compare_rgb(rows, exp)
    obs["counters"]["pixels_compared"] = n
    if bad is not None:
        obs["viols"].append({"sig": "C16/%s/pixel-mismatch/%s" % (fmt, variant.split()[1] if fmt == "max" else variant),
                             "detail": dict(detail, first_mismatch={"x": bad[0], "y": bad[1], "got": bad[2], "expected": bad[3]})})
    if case.get("sample"):
        obs["sample"] = {"variant": variant, "args": args, "input_bytes": len(data), "pixels_compared": n}
    return obs


def cases(tier, seed):
    q = tier == "quick"
    s = seed * 7919
    n = 0

    def c(**kw):
        nonlocal n
        n += 1
        kw["seed"] = s + n
        kw["sample"] = n % 150 == 1
        return kw

    # palette mapping: every colour code in every slot, both nibbles / all bit pairs
    for k in range(64):
        yield c(fmt="hrs", w=32, h=2, kind="alt", pal=k)
        if not q or k % 4 == 0:
            yield c(fmt="mge", rgb=True, kind="alt", pal=k)
            yield c(fmt="mge", rgb=False, kind="alt", pal=k)
            yield c(fmt="cm3", two=False, pat=False, kind="alt", pal=k)
        yield c(fmt="vef", vt=0, kind="alt", pal=k)
        if not q or k % 8 == 0:
            yield c(fmt="vef", vt=1, kind="alt", pal=k)
            yield c(fmt="vef", vt=3, kind="alt", pal=k)
    for flag in (255, 2, 3, 128, 254, 64):
        # "not zero" spelled in other ways than 1 in the two MGE flag bytes
        for rgb in (True, False):
            yield c(fmt="mge", rgb=rgb, kind="random", flag=flag)
    for vt in (0, 1, 3):
        for kind in ("random", "alt"):
            yield c(fmt="vef", vt=vt, kind=kind, highbits=True)
    # CM3 animation / cycle fields set (rates, a cycle table, the two flag bytes with and without bit 7)
    for k_, x_ in enumerate(((3, 5, [1, 2, 3, 4, 5, 6, 7, 8], 0x80, 0x80), (0, 9, [63, 0, 9, 18, 27, 36, 45, 54], 0, 0xFF), (7, 0, [5] * 8, 0xFF, 0),
                             (1, 1, [0] * 8, 0x7F, 0x01), (255, 255, [255] * 8, 0x80, 0x81))):
        yield c(fmt="cm3", two=(k_ % 2 == 1), pat=(k_ % 3 != 0), kind="random", cm3x=list(x_))
    for fp in ("all", "first4", "zero", "two", "white"):
        for vt in (0, 1, 3):
            yield c(fmt="vef", vt=vt, kind="random", flatpal=fp)
        yield c(fmt="hrs", w=32, h=4, kind="random", flatpal=fp)
        yield c(fmt="mge", rgb=(fp != "two"), kind="random", flatpal=fp)
        yield c(fmt="cm3", two=False, pat=False, kind="random", flatpal=fp)
    # the title of an MGE picture is text the decoder only shows: semigraphics blocks, accented letters, bytes that are no
    # valid UTF-8, an empty and a full-length title leave the picture what it is
    for k_, title in enumerate(["\x8f\x8f CASTLE", "CH\xc2TEAU", "\xff\xfe\x80", "", "A" * 29, "caf\xe9 \x9f"]):
        yield c(fmt="mge", rgb=(k_ % 2 == 0), kind="random", title=title)
    for kind in ("random", "alt"):
        yield c(fmt="hrs", w=32, h=4, kind=kind, highbits=True)
        yield c(fmt="mge", rgb=True, kind=kind, highbits=True)
        yield c(fmt="cm3", two=False, pat=False, kind=kind, highbits=True)
    kinds = M.PIXEL_KINDS
    # HRS geometries
    for kind in kinds:
        yield c(fmt="hrs", w=320, h=192 if not q else 24, kind=kind)
        for (w, h) in ((160, 97), (2, 1), (64, 5), (320, 3)):
            yield c(fmt="hrs", w=w, h=h, kind=kind)
        yield c(fmt="hrs", w=16, h=4, kind=kind, skip=7)
    # PIX
    for side in range(2, 66, 2) if not q else (2, 4, 8, 16, 30, 64):
        for kind in ("random", "alt", "corners", "ramp"):
            yield c(fmt="pix", side=side, kind=kind)
    # MAX: 9 modes x header variants
    for mode in M.MAX_MODES:
        for kind in ("random", "zero", "max", "alt", "corners", "runs"):
            yield c(fmt="max", mode=mode, cols=256, rows=12 if q else 192, kind=kind)
            yield c(fmt="max", mode=mode, cols=64, rows=5, kind=kind)
            yield c(fmt="max", mode=mode, cols=32, rows=7, kind=kind, newsroom=True)
            yield c(fmt="max", mode=mode, cols=16, rows=3, kind=kind, skip=5)
        # the load address of the preamble is any 16-bit value (converters write 0, a SAVEM from high memory something big)
        for load in (0x0000, 0x0400, 0x0600, 0x7000, 0x8000, 0xC000, 0xFFFF):
            yield c(fmt="max", mode=mode, cols=256, rows=6, kind="random", load=load)
    # header fields at their boundaries: one-byte Newsroom width (in bytes) and height up to 255, and the 5-byte header's
    # 16-bit length with -r / -w around 128 and 256 rows
    for i, (cols, rows) in enumerate(((8, 127), (8, 128), (16, 129), (8, 200), (8, 255), (8 * 127, 2), (8 * 128, 2), (8 * 255, 1), (8 * 200, 3))):
        for mode in (list(M.MAX_MODES) if not q else [list(M.MAX_MODES)[i % 9], "bw" if "bw" in M.MAX_MODES else list(M.MAX_MODES)[0]]):
            yield c(fmt="max", mode=mode, cols=cols, rows=rows, kind="random", newsroom=True)
            if cols <= 1024:
                yield c(fmt="max", mode=mode, cols=cols, rows=rows, kind="corners")
    for (w, h) in ((254, 1), (255, 2), (256, 1), (510, 1), (512, 2), (2, 255), (2, 256), (4, 300), (1022, 1)):
        yield c(fmt="hrs", w=w, h=h, kind="random")
    # full-size fixed formats
    reps = 1 if q else 12
    for rep in range(reps):
        for kind in kinds:
            for rgb in (True, False):
                yield c(fmt="mge", rgb=rgb, kind=kind)
            for two in (False, True):
                for pat in (True, False):
                    yield c(fmt="cm3", two=two, pat=pat, kind=kind)
            for vt in (0, 1, 3):
                yield c(fmt="vef", vt=vt, kind=kind)
