"""C07 - accepted programs yield structurally well-formed BASIC09 text.

Post-condition monitor on the real convert(): whenever it returns, the reference BASIC09 parser
(statement grammar + block structure, DESIGN.md Appendix E) must accept the text and no internal object
may leak into it.
"""
import glob
import os
import random
import re

from .. import boot, harness
from ..cbref.ast import render
from ..gen import progs, progtools

PROPERTY = "C07"
LEVEL = "exploration"
RULE = ("case = one program x one option set; programs: grammar-directed random programs over all statement kinds "
        "(vlib/gen/progs.py), the bundled examples, the differential workloads of C01; distinct = distinct structural key "
        "(statement kinds with expression shapes) x option set; non-trivial = the tool accepted the program, i.e. the "
        "post-condition was actually evaluated")
ASSUMPTIONS = [
    "well-formed = accepted by vlib/b09ref/parser.py (grammar of DESIGN.md Appendix E, tolerant where real BASIC09 is unsure)",
    "programs avoid BASIC09 reserved words as variable names (README tells users the same) and unbalanced FOR/NEXT",
]
REQUIRED_COUNTERS = ["postcondition_evaluations"]

OPTION_SETS = [
    {},
    {"initialize_vars": True},
    {"filter_unused_linenum": True},
    {"initialize_vars": True, "filter_unused_linenum": True, "default_str_storage": 80},
    {"output_dependencies": True, "procname": "prog"},
    {"output_dependencies": True, "procname": "prog", "initialize_vars": True, "default_str_storage": 100,
     "default_width32": False},
    {"add_standard_prefix": False},
    {"add_suffix": False, "initialize_vars": True},
    {"add_standard_prefix": False, "add_suffix": False, "filter_unused_linenum": True},
    {"skip_procedure_headers": True, "output_dependencies": True, "procname": "x"},
]

_LEAK = re.compile(r"<Node|RegexNode|object at 0x|\bBasic[A-Z]\w+|\bNone\b|<coco\.|<class ")
_STR = re.compile(r'"[^"]*"')


def leaks(out):
    found = []
    for ln in out.split("\n"):
        code = _STR.sub('""', ln)
        i = code.find("(*")
        if i >= 0:
            code = code[:i]
        m = _LEAK.search(code)
        if m:
            found.append((m.group(0), ln[:160]))
    return found


def check_output(out):
    """-> list of (kind, detail) structural defects of one emitted text."""
    bad = []
    procs, err = harness.parse_b09(out)
    if err is not None:
        kw = ""
        if err.get("text"):
            t = err["text"].strip().split()
            if t and t[0].isdigit():
                t = t[1:]
            kw = t[0].upper() if t else ""
        bad.append(("parse", {"msg": err["msg"], "line": err["line"], "col": err["col"], "text": (err["text"] or "")[:200],
                              "stem": re.sub(r"\d+", "#", err["msg"])[:40], "kw": kw}))
    for tok, ln in leaks(out):
        bad.append(("leak", {"token": tok, "text": ln}))
    return bad


def get_program(case):
    if case["gen"] == "prog":
        r = random.Random(case["seed"])
        g = progs.ProgGen(r, **case.get("knobs", {}))
        return g.program(case.get("nlines"))
    if case["gen"] == "ast":
        return [(n, list(st)) for n, st in case["prog"]]
    if case["gen"] == "c02":
        from . import c02

        g = c02.FlowGen(random.Random(case["seed"]), zero_trip=case["seed"] % 7 == 0)
        return g.program(2 + case["seed"] % 5, c02.VALUATIONS[case["seed"] % len(c02.VALUATIONS)])
    if case["gen"] == "c03":
        from . import c03

        return c03.DataGen(random.Random(case["seed"]), 80).program(1 + case["seed"] % 4)
    if case["gen"] == "c05":
        from . import c05

        pool = c05.NUM_EXPRS if case["seed"] % 3 else c05.STR_EXPRS
        carriers = c05.NUM_CARRIERS if case["seed"] % 3 else c05.STR_CARRIERS
        e = pool[case["seed"] % len(pool)][1]
        cn = carriers[(case["seed"] // len(pool)) % len(carriers)]
        return [(5, [("dim", [("X", [20], ["20"]), ("Y", [20], ["20"]), ("S$", [5], ["5"]), ("Z", [20, 5], ["20", "5"])])]),
                (10, c05.SETUP), (20, c05.FILL)] + c05.carrier(cn, e)
    if case["gen"] == "c01":
        from . import c01
        import itertools

        cs = next(itertools.islice(c01.cases("quick", 0), case["index"], None))
        usable = [(v, 1.0) for v in c01.VALUATIONS[:3]]
        return c01.build_program(cs["ctx"], cs["e"], usable)
    raise ValueError(case)


# two-letter BASIC09 reserved words that the tool accepts at the head of a name (IF OR TO are in the tool's keyword table:
# it refuses names that begin with them, and if it ever accepts one the output is judged like any other; ON and IN are
# not in that table - README.decb-to-b09.md: variables "cannot be keywords including IN, ON or TO")
B09_RESERVED2 = {"DO", "PI", "SQ", "ON", "IN"}


def peg_text(case):
    """A sentence derived from the grammar object of the tree under observation (prefix operators left out: they are the
    trigger of the known PREFIX-OVER-LOGIC finding, which cannot be diagnosed without an abstract program)."""
    from coco.b09 import compiler
    from ..gen import peggen

    g = getattr(compiler.grammar, "_real", compiler.grammar)
    rng = random.Random(case["seed"])
    s = peggen.PegSampler(g, rng, max_depth=rng.choice([14, 18, 22]), avoid={"unop_exp"}, avoid_optional_literals={"NOT"})
    return s.gen(), g


def source_structure(g, text):
    """Read off the tool's own parse of the SOURCE (not its output): is FOR/NEXT properly nested in textual order, and
    does any variable name begin with a BASIC09 reserved word?  -> (nested: bool, reserved: bool)"""
    try:
        tree = g.parse(text)
    except Exception:  # noqa: BLE001
        return True, False
    stack = []
    nested = True
    reserved = False
    todo = [tree]
    order = []
    while todo:
        nd = todo.pop()
        nm = getattr(nd, "expr_name", "")
        if nm in ("for_statement", "for_step_statement", "next_var_statement", "next_empty_statement"):
            order.append((nd.start, nm, nd))
            continue
        if nm in ("var", "str_var"):
            if nd.text[:2] in B09_RESERVED2:
                reserved = True
        todo.extend(nd.children)

    def vars_in(nd, only_first=False):
        out = []
        st = [nd]
        while st:
            x = st.pop()
            if getattr(x, "expr_name", "") == "var":
                out.append((x.start, x.text[:2]))
                continue
            st.extend(x.children)
        out.sort()
        return [v for _, v in out]

    for _, nm, nd in sorted(order, key=lambda t: t[0]):
        vs = vars_in(nd)
        for v in vs:
            if v in B09_RESERVED2:
                reserved = True
        if nm.startswith("for"):
            stack.append(vs[0] if vs else "?")
        elif nm == "next_empty_statement":
            if not stack:
                nested = False
            else:
                stack.pop()
        else:
            for v in vs:
                if not stack or stack[-1] != v:
                    nested = False
                    break
                stack.pop()
    if stack:
        nested = False
    return nested, reserved


def run_case(case):
    opts = OPTION_SETS[case["opt"] % len(OPTION_SETS)]
    obs = {"counters": {"cases": 1}, "viols": [], "sets": {}}
    if case["gen"] == "example":
        text = open(os.path.join(boot.REPO, case["path"])).read()
        prog = None
        obs["key"] = "example:%s|%d" % (case["path"], case["opt"])
    elif case["gen"] == "text":
        text = case["text"]
        prog = None
        obs["key"] = "text:%s|%d" % (text, case["opt"])
    elif case["gen"] == "peg":
        text, peg_grammar = peg_text(case)
        prog = None
        obs["key"] = "peg:%s|%d" % (text, case["opt"] % len(OPTION_SETS))
    else:
        prog = get_program(case)
        text = render(prog)
        obs["key"] = progtools.prog_key(prog) + "|%d" % (case["opt"] % len(OPTION_SETS))
        obs["sets"]["statement_kinds"] = sorted(progtools.stmt_kinds(prog))
    conv = harness.convert(text, **opts)
    if not conv["ok"]:
        obs["nontrivial"] = False
        obs["counters"]["refused" if conv["documented"] else "internal_error"] = 1
        return obs
    obs["counters"]["postcondition_evaluations"] = 1
    bad = check_output(conv["out"])
    if not bad:
        obs["counters"]["well_formed"] = 1
        if case.get("sample"):
            obs["sample"] = {"source": text[:400], "options": opts, "emitted_lines": conv["out"].count("\n")}
        return obs
    kind, d = bad[0]
    detail = {"source": text[:1500], "options": opts, "defects": bad[:3]}
    if prog is not None:
        # only these known mechanisms can make the emitted text ill-formed
        t = progtools.taints(prog) & {"PREFIX-OVER-LOGIC", "READ-INPUT-subscript-unvisited"}
        if not t:
            obs["counters"]["untainted_failures"] = 1
        else:
            text2 = render(progtools.dehazard_prog(prog))
            conv2 = harness.convert(text2, **opts)
            if (not conv2["ok"]) or not check_output(conv2["out"]):
                obs["viols"].append({"sig": "C07/known-mechanism/" + sorted(t)[0], "detail": detail})
                return obs
            detail["dehazarded_still_fails"] = True
    if case["gen"] in ("peg", "text"):
        if case["gen"] == "text":
            from coco.b09 import compiler as _c

            peg_grammar = getattr(_c.grammar, "_real", _c.grammar)
        nested, reserved = source_structure(peg_grammar, text)
        if reserved:
            # names beginning with a BASIC09 reserved word: the README tells users to avoid them
            obs["viols"] = []
            obs["nontrivial"] = False
            obs["counters"]["reserved_name_sources"] = 1
            return obs
        stem = d.get("stem", "") if kind == "parse" else ""
        if not nested and any(w in stem for w in ("NEXT", "FOR", "does not close", "never closed", "without")):
            obs["viols"].append({"sig": "C07/source/FOR-NEXT-not-nested", "detail": detail})
            return obs
        line = (d.get("text") or "") if kind == "parse" else ""
        if kind == "parse" and (d.get("kw") == "READ" or " INPUT " in line or line.lstrip("0123456789 ").startswith("INPUT")):
            obs["viols"].append({"sig": "C07/known-mechanism/READ-INPUT-subscript-unvisited", "detail": detail})
            return obs
    if kind == "parse":
        sig = "C07/parse/%s/%s" % (d["stem"].replace(" ", "-"), d["kw"])
    else:
        sig = "C07/leak/" + d["token"].strip("<")
    obs["viols"].append({"sig": sig, "detail": detail})
    return obs


def cases(tier, seed):
    n = 1500 if tier == "quick" else 150000
    for i in range(n):
        yield {"gen": "prog", "seed": seed * 1000003 + i, "opt": i, "sample": i % 211 == 0,
               "nlines": (120 + i % 130) if i % 60 == 59 else None}
    # simpler programs (fewer features per program give more accepted programs per kind)
    for i in range(n // 3):
        yield {"gen": "prog", "seed": seed * 7000003 + i, "opt": i,
               "knobs": {"max_depth": 1, "device": i % 2 == 0, "ifs": i % 3 != 0, "jumps": i % 5 != 0}}
    for i in range(1500 if tier == "quick" else 120000):
        yield {"gen": "peg", "seed": seed * 8000009 + i, "opt": i}
    for t in NEAR_MISS_TEXTS:
        for o in (0, 1):
            yield {"gen": "text", "text": t, "opt": o}
    ex = sorted(glob.glob(os.path.join(boot.REPO, "examples", "*", "*.bas")))
    for p in ex:
        for o in range(len(OPTION_SETS)):
            yield {"gen": "example", "path": os.path.relpath(p, boot.REPO), "opt": o}
    # every statement kind alone (deterministic coverage of the grammar's alternatives)
    for t in SINGLE_STATEMENTS:
        for o in (0, 1, 4):
            yield {"gen": "text", "text": t, "opt": o}
    m = 300 if tier == "quick" else 15000
    for i in range(m):
        yield {"gen": "c01", "index": (i * 13) % 3000, "opt": i}
    # the union pool: programs of the behavioural workloads are structurally checked here too
    for i in range(m):
        yield {"gen": "c02", "seed": seed * 31 + i, "opt": i}
        yield {"gen": "c03", "seed": seed * 37 + i, "opt": i}
        yield {"gen": "c05", "seed": seed * 41 + i, "opt": i}


# spellings at the edge of the accepted language (refused today, or accepted in some form): if a change of the grammar
# lets one through, its output must still be well-formed
NEAR_MISS_TEXTS = [
    # look-alikes of the quotation mark, the apostrophe, the minus sign and the ellipsis (word-processor characters in a
    # listing) inside constants, DATA items, prompts and remarks: ordinary characters to the grammar, ordinary characters
    # in what is emitted
    '10 A$="5\u201d DISK"', '10 PRINT "SAY \u201cHI\u201d NOW"', '10 DATA NAIL 3\u201d,\u201cX\u201d\n20 READ A$,B$', '10 INPUT "HOW MANY 5\u201d DISKS";N',
    '10 A$="IT\u2019S":PRINT A$;"\u2018Q\u2019"', '10 PRINT "A \u2013 B \u2014 C\u2026"', "10 REM \u201cQUOTED\u201d REMARK\n20 ' IT\u2019S", '10 PRINT "OPEN \u201cLITERAL',
    '10 HPRINT(1,2),"\u201cHI\u201d":PLAY "C"', '10 A=INSTR(1,A$,"\u201d"):B$=STRING$(3,"\u201c")',
    # POKE to addresses that mean something special to the tool today (the two speed pokes) or might tomorrow (the low-memory
    # and GIME registers a CoCo program pokes routinely), with a converted function in the value
    '10 POKE 65497,INT(A)', '10 IF A THEN POKE 65497,INT(A):B=1',
    '10 POKE 65496,BUTTON(0)', '10 IF A THEN POKE 65496,BUTTON(0):B=1',
    '10 POKE 65495,INT(A)', '10 IF A THEN POKE 65495,INT(A):B=1',
    '10 POKE 65494,JOYSTK(0)', '10 IF A THEN POKE 65494,JOYSTK(0):B=1',
    '10 POKE &HFFD7,BUTTON(0)', '10 IF A THEN POKE &HFFD7,BUTTON(0):B=1',
    '10 POKE 113,INT(A)', '10 IF A THEN POKE 113,INT(A):B=1',
    '10 POKE 282,VAL(A$)', '10 IF A THEN POKE 282,VAL(A$):B=1',
    '10 POKE 359,INT(A)', '10 IF A THEN POKE 359,INT(A):B=1',
    '10 POKE 1024,INT(A)', '10 IF A THEN POKE 1024,INT(A):B=1',
    '10 POKE 0,INSTR(1,A$,B$)', '10 IF A THEN POKE 0,INSTR(1,A$,B$):B=1',
    '10 POKE &HFFD9,INT(A)+INT(B)', '10 IF A THEN POKE &HFFD9,INT(A)+INT(B):B=1',
    '10 POKE 65280,INT(A)', '10 IF A THEN POKE 65280,INT(A):B=1',

    # long generated lines (well over 255 characters) that carry the statement separator of BASIC09 - blank, backslash,
    # blank - inside a literal, a comment, a DATA item
    '10 PRINT "LEFT \\ RIGHT";A;B;C;D;E;F;G;H;I;J;K;L', '10 Z=INT(A)+INT(B)+INT(C)+INT(D)+INT(E)+INT(F)+INT(G)+INT(H)+INT(I):REM A \\ B',
    '10 REM ' + "-" * 130 + " \\ " + "=" * 130, '10 A$="' + "X" * 120 + " \\ " + "Y" * 120 + '":PRINT A$;"Q \\ R"',
    '10 DATA ' + ",".join(["A \\ B"] * 40), '10 PRINT ' + ";".join(['STR$(A)+" \\ "'] * 12),
    '10 DATA SIZE 5" DISK,PLAIN', '10 DATA JOE "KING" SMITH', '10 DATA A"B', '10 DATA "A"B', '10 DATA "A""B"', "10 DATA A'B", "10 DATA A:B",
    '10 DATA "A,B', '10 DATA X"', '10 READ A$\n20 DATA 5" ,X', '10 PRINT "A""B"', '10 PRINT "A"B"C"', '10 A$="A"+"B""', "10 PRINT 'X",
    '10 REM "', "10 ' \"", '10 INPUT "A"";B', '10 INPUT "A";"B";C', '10 LINE INPUT "A""B";C$', '10 HPRINT(1,2),"A""', '10 PLAY "A"+"B"""',
    '10 IF A$="X"" THEN 10', "10 PRINT CHR$(34);\"A\";CHR$(34)", '10 PRINT "(*";"*)"', '10 REM (* X *)', "10 ' *) X (*", '10 PRINT "\\"',
    '10 A$="\\":B$="X\\Y"', '10 PRINT "A\\B"; : PRINT "C"', "10 DATA A\\B,\\", "10 REM A\\B", "10 DATA (*,*)", '10 A$="!":PRINT"!"',
]

SINGLE_STATEMENTS = [
    "10 CLS", "10 CLS 3", "10 PRINT", "10 PRINT @ 32, \"A\"", "10 PRINT@5", "10 ?\"A\";B;", "10 LOCATE 1,2", "10 ATTR 1,2,B,U",
    "10 WIDTH 40", "10 PALETTE 1,2", "10 PALETTE RGB", "10 PALETTE CMP", "10 RGB", "10 CMP", "10 HSCREEN 2", "10 HSCREEN",
    "10 HCLS", "10 HCLS 3", "10 HCOLOR 1", "10 HCOLOR 1,2", "10 HCIRCLE(1,2),3", "10 HCIRCLE(1,2),3,4",
    "10 HCIRCLE(1,2),3,4,5", "10 HCIRCLE(1,2),3,,5", "10 HCIRCLE(1,2),3,4,5,6,7", "10 HCIRCLE(1,2),3,,5,6,7",
    "10 HLINE(1,2)-(3,4),PSET", "10 HLINE-(3,4),PRESET,BF", "10 HLINE(1,2)-(3,4),PSET,B", "10 HSET(1,2)", "10 HSET(1,2,3)",
    "10 HRESET(1,2)", "10 HPAINT(1,2)", "10 HPAINT(1,2),3", "10 HPAINT(1,2),3,4", "10 HPRINT(1,2),\"A\"", "10 HPRINT(1,2),3",
    "10 HDRAW \"U10\"", "10 PLAY \"CDE\"", "10 HBUFF 1,100", "10 HGET(1,2)-(3,4),1", "10 HPUT(1,2)-(3,4),1,PSET",
    "10 SET(1,2,3)", "10 RESET(1,2)", "10 SOUND 1,2", "10 POKE 1,2", "10 POKE 65496,0", "10 POKE &HFFD9,0",
    "10 A=BUTTON(0)", "10 A=JOYSTK(1)", "10 A=POINT(1,2)", "10 A$=INKEY$", "10 IF INKEY$=\"\" THEN 10",
    "10 DIM A(3),B$(2,2),C(1,2,3),D,E$", "10 DATA 1,A,\"B\",,&HFF\n20 READ A,B$,C$,D,E", "10 RESTORE", "10 INPUT A",
    "10 INPUT \"X\";A,B$", "10 LINE INPUT A$", "10 LINE INPUT \"X\";A$", "10 FOR I=1 TO 3:NEXT", "10 FOR I=1 TO 3 STEP 2:NEXT I",
    "10 GOTO 10", "10 GOSUB 10:RETURN", "10 ON A GOTO 10,10", "10 ON A GOSUB 10", "10 ON ERR GOTO 10", "10 ON BRK GOTO 10",
    "10 ON ERR GOTO 10:ON BRK GOTO 10", "10 END", "10 STOP", "10 TRON:TROFF", "10 CLEAR 200", "10 REM X", "10 'X",
    "10 A=VARPTR(B)", "10 A=ERNO", "10 LET A=1", "10 A$=\"X", "10 A$(1)=\"X", "0 A=1", "10 IF A THEN 10",
    "10 IF A=1 THEN B=1 ELSE B=2", "10 IF A=1 THEN 10 ELSE IF A=2 THEN 10 ELSE B=3", "10 IF A=1 THEN B=1 ELSE IF A=2 THEN B=2",
    "10 A=PEEK(1)+RND(2)+SIN(0)+COS(0)+TAN(0)+ATN(0)+EXP(0)+LOG(1)+SQR(4)", "10 A$=CHR$(65)+LEFT$(B$,1)+RIGHT$(B$,1)+MID$(B$,1,1)",
    "10 PRINT TAB(3);\"A\"", "10 A=ASC(\"A\")+LEN(B$)+VAL(\"1\")", "10 A$=STR$(1)+HEX$(2)+STRING$(3,\"A\")", "10 A=INSTR(1,B$,\"A\")",
]
