"""C08 - source layout does not change the translation.
Metamorphic monitor on the real convert(): renderings of one token list that differ only at boundaries where
blanks are insignificant must be both refused or converted to byte-identical output; content spans (string
literals, DATA items, comments) must come through exactly."""
import random
import re

from .. import harness
from ..cbref.ast import render_tokens, join
from ..gen import exprs as X
from ..gen import progs, progtools

PROPERTY = "C08"
LEVEL = "exploration"
RULE = ("case = one program x a family of layouts: canonical (single blanks), minimal (no blank at soft gaps), random 0-2 "
        "blanks per gap, ? for PRINT, blank lines, LF/CR/CRLF, trailing NUL; plus the exhaustive single-gap sweep (each soft "
        "or literal-internal gap of the program set to 0 and to 2 blanks); keyword/identifier boundaries always keep one blank; "
        "distinct = (program, layout); non-trivial = the canonical layout was accepted and at least one variant compared")
ASSUMPTIONS = ["insignificant boundaries: any token boundary with a non-alphanumeric character on one side, and the gaps inside "
               "numeric / hex literals (sign-digits, around E, after & and H); a boundary between two word-like tokens keeps one blank"]
REQUIRED_COUNTERS = ["layouts_compared"]

KEYWORDS = set("PRINT IF THEN ELSE FOR TO STEP NEXT GOTO GOSUB ON DIM DATA READ INPUT LINE REM LET AND OR NOT END STOP "
               "RETURN RESTORE CLS SOUND POKE ERR BRK TRON TROFF CLEAR".split())


def tok_class(t):
    if t in KEYWORDS or (t.isalpha() and len(t) > 2 and t.isupper()):
        return t
    if t.endswith("$") and t[:-1].isalnum() and len(t) > 3:
        return t
    if t[:1] == '"':
        return "str"
    if t[:1].isdigit() or t[:1] == ".":
        return "num"
    if t[:1].isalpha():
        return "id"
    if t.startswith("REM") or t.startswith("'"):
        return "comment"
    return t


TIGHT_WORDS = set("PRINT IF THEN ELSE FOR TO STEP NEXT GOTO GOSUB ON DIM READ INPUT LINE LET AND OR NOT END STOP RETURN RESTORE CLS "
                  "SOUND POKE PALETTE CMP RGB HSCREEN HCLS HCOLOR WIDTH LOCATE ATTR PSET PRESET HBUFF CLEAR TRON TROFF".split())


def tight_ok(left, right):
    """A word/word boundary that needs no blank in Color BASIC: keyword next to keyword or number (GOTO10, 1TO5, THENPRINT,
    PALETTECMP).  Keyword/identifier boundaries keep their blank (the property says so), and so do boundaries where
    dropping it could merge into another token (hex digits, an exponent E, a name the keyword could be glued to)."""
    if left.isdigit() and (right == "DATA" or right.startswith(("REM", "'"))):
        return True                 # 10REM text, 20DATA items: the keyword may touch the line number
    lk, rk = left in TIGHT_WORDS, right in TIGHT_WORDS
    if lk and rk:
        return True
    if lk and right[:1].isdigit():
        return True
    if rk and left[-1:].isdigit() and not left.startswith("&") and right[0] not in "E":
        return all(c.isdigit() or c == "." for c in left)
    return False


def layout(lines, blanks, eol="\n", tail="", qmark=False, blank_lines=None, blank_fill="", tight=False, final_eol=True):
    out = []
    k = 0
    for li, toks in enumerate(lines):
        toks2 = [("?" if (qmark and t == "PRINT") else t, g) for t, g in toks]
        if tight:
            def hexish(i):        # the digits before this boundary belong to a hex literal (&H1 AND: &H1AND would read 1A)
                return i >= 2 and (toks2[i - 2][0] in ("H", "&H") or toks2[i - 1][0].startswith("&"))
            toks2 = [(t, "soft" if (g == "req" and i and not hexish(i) and tight_ok(toks2[i - 1][0], t)) else g)
                     for i, (t, g) in enumerate(toks2)]
        # '?' is not word-like: the boundary after it may lose its blank
        def b(i, gap, base=k):
            return blanks(base + i, gap)
        out.append(join(toks2, b))
        k += len(toks)
        if blank_lines and li in blank_lines:
            out.append(blank_fill)
    return eol.join(out) + (eol if final_eol else "") + tail


def convert_text(text, opts):
    r = harness.convert(text, **opts)
    return ("ok", r["out"]) if r["ok"] else (("refused", r["exc"]) if r["documented"] else ("internal", r["exc"]))


def content_spans(lines):
    spans = []
    for toks in lines:
        prev = None
        for t, g in toks:
            if t[:1] == '"' and t.endswith('"') and "  " in t or (t[:1] == '"' and " " in t):
                spans.append(("string", t[1:-1] if t.endswith('"') and len(t) > 1 else t[1:]))
            elif (t.startswith("REM") or t.startswith("'")) and len(t) > 4:
                spans.append(("comment", t[3:] if t.startswith("REM") else t[1:]))
            prev = t
    return spans


REUSE_CONSTS = [("n", 1.0, ["1"]), ("n", -1.0, ["-", "1"]), ("n", 1000.0, ["1", "E", "3"]), ("n", -2.5, ["-", "2.5"]),
                ("n", 4.0, ["+", "4"]), ("n", 0.5, [".5"]), ("n", 0.015, ["1.5", "E", "-", "2"]), ("n", 12.0, ["12"]),
                ("n", -3.0, ["-", "3"]), ("h", 255, "FF"), ("n", 100.0, ["1", "E", "+", "2"]), ("n", 7.0, ["007"])]


def _as_expr(item):
    if item[0] == "h":
        return ("hex", item[1], item[2])
    pieces = list(item[2])
    if pieces[0] in "+-":
        return ("un", pieces[0], ("num", abs(item[1]), pieces[1:]))
    return ("num", item[1], pieces)


def reuse_program(rng):
    """The same constants, spelled the same way, in DATA lists (with empty / string items around them) and in
    ordinary statements: one occurrence must not depend on how another one is laid out."""
    k = rng.randint(2, 4)
    cs = [rng.choice(REUSE_CONSTS) for _ in range(k)]
    items = list(cs)
    for _ in range(rng.choice([0, 1, 1, 2])):
        items.insert(rng.randint(0, len(items)), ("u", ""))
    if rng.random() < 0.4:
        items.insert(rng.randint(0, len(items)), rng.choice([("q", "A B"), ("u", "HI"), ("q", "")]))
    targets = []
    import itertools

    nv, sv = itertools.cycle("ABCDEFGH"), itertools.cycle(["A$", "B$", "C$", "D$", "E$", "F$", "G$", "H$"])
    for it in items:
        targets.append(("var", next(nv)) if it[0] in ("n", "h") and rng.random() < 0.8 else ("var", next(sv)))
    e = [_as_expr(c) for c in cs]
    pick = lambda: rng.choice(e)
    blocks = [
        [("data", items)],
        [("read", targets)],
        [("let", ("var", "X"), pick(), False), ("let", ("var", "Y"), ("bin", rng.choice("+-*"), ("var", "X"), pick()), False)],
        [("if", ("bin", rng.choice(["=", "<", ">"]), ("var", "A"), pick()), ("stmts", [("print", [("e", pick()), ("sep", ";"), ("e", pick())], None)]), [],
          None if rng.random() < 0.5 else ("stmts", [("let", ("var", "Z"), pick(), False)]))],
        [("for", "I", pick(), pick(), pick() if rng.random() < 0.5 else None), ("next", ["I"])],
        [("data", [rng.choice(cs) for _ in range(rng.randint(1, 3))])],
        [("let", ("arr", "Q", [X.num(1)]), ("fn", "ABS", [pick()]), False)],
    ]
    order = list(range(len(blocks)))
    rng.shuffle(order)
    keep = sorted(order[:rng.randint(3, len(blocks))] + ([0] if 0 not in order[:3] else []))
    if rng.random() < 0.5:
        keep = keep[::-1] if rng.random() < 0.3 else keep
    return [(10 * (i + 1), blocks[b]) for i, b in enumerate(dict.fromkeys(keep))]


_CONVERTIBLE = {"INT", "VAL", "STR$", "HEX$", "INSTR", "STRING$", "INKEY$", "BUTTON", "JOYSTK", "POINT"}


def ifelse_call_literals(prog):
    """String literals inside arguments of run-translated functions in the conditions of IF statements that have an
    ELSE / ELSE IF part: the position at which the tool is known to drop the hoisted call (and the literal with it)."""
    out = set()

    def lits(e, inside):
        k = e[0]
        if k == "str" and inside:
            out.add(e[1])
        elif k == "fn":
            for a in e[2]:
                lits(a, inside or e[1] in _CONVERTIBLE)
        elif k == "arr":
            for a in e[2]:
                lits(a, inside)
        elif k == "bin":
            lits(e[2], inside)
            lits(e[3], inside)
        elif k == "un":
            lits(e[2], inside)
        elif k == "par":
            lits(e[1], inside)

    for _, st in progtools.all_stmts(prog):
        if st[0] == "if" and (st[3] or st[4] is not None):
            lits(st[1], False)
            for c, _ in st[3]:
                lits(c, False)
            # an IF that opens the ELSE arm reads, in the text, as one more ELSE IF of the same statement
            els = st[4]
            while els is not None and els[0] == "stmts" and els[1] and els[1][0][0] == "if":
                inner = els[1][0]
                lits(inner[1], False)
                for c, _ in inner[3]:
                    lits(c, False)
                els = inner[4]
    return out


def get_program(case):
    if case.get("reuse"):
        return reuse_program(random.Random(case["seed"]))
    if case.get("prog"):
        return [(n, list(st)) for n, st in case["prog"]]
    rng = random.Random(case["seed"])
    g = progs.ProgGen(rng, **case.get("knobs", {}))
    return g.program(case.get("nlines"))


CLI_LAST_LINES = ["30 DATA HELLO  ,WORLD  ", "30 REM END OF PART 1   ", "30 ' TRAILING   ", '30 A$="READY  ', "30 DATA X,  ", '30 PRINT "A  ";:B$=" ',
                  "30 PRINT A", "30 DATA   ",
                  # characters that a line-splitting routine of the host language takes for line ends, in a constant, a
                  # remark and a DATA item: with CR or CR LF line ends the file is the same program
                  '30 PRINT "PAGE\x0cTWO";"A\x0bB"', "30 REM X\x85Y \u2028 Z", "30 DATA P\x1cQ,\"R\x1dS\",T\x1eU", '30 A$="\u2029 OPEN']


def run_cli_tail(case):
    """The command line (file in, file out): line ends and a trailing NUL are layout there too, and the blanks that END the
    last line are content when that line ends in a DATA item, a comment or an open string literal."""
    import io
    import os
    import sys
    from coco import decb_to_b09
    from .. import run

    obs = {"counters": {}, "viols": [], "sets": {}}
    last = CLI_LAST_LINES[case["last"] % len(CLI_LAST_LINES)]
    base = "10 A=1\n20 PRINT A;\"X\"\n" + last
    d = os.path.join(run.WORK, "c08cli-%d" % os.getpid())
    os.makedirs(d, exist_ok=True)
    src, dst = os.path.join(d, "prog.bas"), os.path.join(d, "prog.b09")

    def conv(text):
        with open(src, "w", newline="") as f:
            f.write(text)
        if os.path.exists(dst):
            os.remove(dst)
        saved = (sys.stdout, sys.stderr)
        sys.stdout, sys.stderr = io.StringIO(), io.StringIO()
        try:
            decb_to_b09.start(case.get("flags", []) + [src, dst])
            with open(dst, "rb") as f:
                return ("ok", f.read())
        except BaseException as exc:  # noqa: BLE001
            return ("refused", type(exc).__name__)
        finally:
            sys.stdout, sys.stderr = saved

    ref = conv(base + "\n")
    obs["key"] = "cli|%s|%s" % (last, case.get("flags"))
    variants = {"no-final-eol": base, "nul": base + "\n\x00", "crlf": base.replace("\n", "\r\n") + "\r\n",
                "cr": base.replace("\n", "\r") + "\r", "eol-eol-nul": base + "\n\n\x00", "crlf-nul": base.replace("\n", "\r\n") + "\r\n\x00"}
    n = 0
    for name, text in variants.items():
        got = conv(text)
        n += 1
        if got != ref and not (got[0] != "ok" and ref[0] != "ok"):
            dd = None
            if got[0] == "ok" and ref[0] == "ok":
                a, b = ref[1].split(b"\r"), got[1].split(b"\r")
                dd = next(((x.decode("latin1"), y.decode("latin1")) for x, y in zip(a, b) if x != y), (len(a), len(b)))
            obs["viols"].append({"sig": "C08/cli/%s/%s" % (name, "accepted-vs-refused" if got[0] != ref[0] else "bytes-differ"),
                                 "detail": {"last_line": last, "variant": name, "first_difference": dd, "reference": ref[0], "variant_outcome": got[0]}})
            break
    obs["counters"]["layouts_compared"] = n
    obs["counters"]["cli_layouts_compared"] = n
    obs["evaluations"] = n + 1
    return obs


def run_case(case):
    if case.get("mode") == "cli_tail":
        return run_cli_tail(case)
    obs = {"counters": {}, "viols": [], "sets": {}}
    prog = get_program(case)
    lines = render_tokens(prog)
    ngaps = sum(len(l) for l in lines)
    opts = case.get("opts", {})
    canon_text = layout(lines, lambda i, g: 1 if g in ("req", "soft") else 0)
    base = convert_text(canon_text, opts)
    obs["key"] = progtools.prog_key(prog) + "|" + case["mode"]
    if base[0] != "ok":
        obs["nontrivial"] = False
        obs["counters"]["canonical_" + base[0]] = 1
        # even then every layout must be refused alike: checked below for a few variants
    rng = random.Random(case["seed"] + 99)
    variants = []
    gaps = []
    k = 0
    for toks in lines:
        for i, (t, g) in enumerate(toks):
            if g in ("soft", "lit", "req"):
                gaps.append((k + i, toks[i - 1][0] if i else "", t, g))
        k += len(toks)
    if case["mode"] == "family":
        variants.append(("minimal", dict(blanks=lambda i, g: 0)))
        variants.append(("double", dict(blanks=lambda i, g: 2 if g != "none" else 0)))
        for r in range(8):
            tbl = [rng.choice([0, 1, 2]) for _ in range(ngaps)]
            variants.append(("random%d" % r, dict(blanks=lambda i, g, tbl=tbl: tbl[i])))
        one = lambda i, g: 1 if g in ("req", "soft") else 0
        variants.append(("tight-keywords", dict(blanks=lambda i, g: 1 if g == "req" else 0, tight=True)))
        variants.append(("qmark", dict(blanks=one, qmark=True)))
        variants.append(("cr", dict(blanks=one, eol="\r")))
        variants.append(("crlf", dict(blanks=one, eol="\r\n")))
        variants.append(("nul", dict(blanks=one, tail="\x00")))
        variants.append(("blank-lines", dict(blanks=one, blank_lines={0, len(lines) - 1})))
        last_tok = lines[-1][-1][0] if lines and lines[-1] else ""
        if any(t.startswith(("REM", "'")) for t, g in lines[-1]):
            last_tok = ""               # a comment takes everything up to the line end, the NUL included
        if last_tok[:1].isdigit() or last_tok == ")" or (last_tok[:1] == '"' and last_tok.endswith('"') and len(last_tok) > 1) or \
                (last_tok[:1].isalpha() and last_tok.rstrip("$").isalnum() and not any(t == "DATA" for t, g in lines[-1])):
            # the file ends in a NUL straight after the last token, with no line end (only where that token cannot take the
            # NUL in as content: a number, a closing parenthesis, a closed string, a name outside DATA)
            variants.append(("nul-no-eol", dict(blanks=one, tail="\x00", final_eol=False)))
            variants.append(("no-eol", dict(blanks=one, final_eol=False)))
        # blank lines that hold blanks, after the first, a middle and the last line, under each kind of line end
        for nm, e in (("lf", "\n"), ("cr", "\r"), ("crlf", "\r\n")):
            variants.append(("blanks-only-lines-" + nm, dict(blanks=one, eol=e, blank_lines={0, len(lines) // 2, len(lines) - 1},
                                                            blank_fill=" " * (1 + len(lines) % 3))))
    else:
        # exhaustive single-gap sweep
        for (gi, left, right, gk) in gaps:
            for nb in ((0, 2) if gk == "soft" else ((2,) if gk == "req" else (1, 2))):
                variants.append(("gap%d=%d" % (gi, nb), dict(blanks=lambda i, g, gi=gi, nb=nb: nb if i == gi else (1 if g in ("req", "soft") else 0))))
    n = 0
    for name, kw in variants:
        text = layout(lines, **kw)
        if text == canon_text:
            continue
        res = convert_text(text, opts)
        n += 1
        same = (res == base) if base[0] == "ok" else (res[0] == base[0] or (res[0] != "ok" and base[0] != "ok"))
        if same:
            continue
        # localise to a single gap
        sig_gap = None
        if name.startswith("gap"):
            gi = int(name[3:].split("=")[0])
            sig_gap = next(g for g in gaps if g[0] == gi)
        elif "blanks" in kw and name not in ("qmark", "cr", "crlf", "nul", "blank-lines", "tight-keywords", "nul-no-eol", "no-eol") and not name.startswith("blanks-only-lines"):
            for g in gaps:
                nb = kw["blanks"](g[0], g[3])
                dflt = 1 if g[3] in ("soft", "req") else 0
                if nb == dflt:
                    continue
                t2 = layout(lines, lambda i, gg, gi=g[0], nb=nb: nb if i == gi else (1 if gg in ("req", "soft") else 0))
                if convert_text(t2, opts) != base:
                    sig_gap = g
                    break
        if sig_gap is not None:
            what = "%s|%s" % (tok_class(sig_gap[1]), tok_class(sig_gap[2]))
            sig = "C08/gap/%s/%s" % (what, "accepted-vs-refused" if res[0] != base[0] else "bytes-differ")
        else:
            sig = "C08/layout/%s/%s" % (re.sub(r"\d+", "", name), "accepted-vs-refused" if res[0] != base[0] else "bytes-differ")
        dd = None
        if res[0] == "ok" and base[0] == "ok":
            dd = next(((x, y) for x, y in zip(base[1].split("\n"), res[1].split("\n")) if x != y), None)
        obs["viols"].append({"sig": sig, "detail": {"canonical": canon_text[:500], "variant": text[:500], "layout": name,
                                                    "canonical_outcome": base[0] if base[0] == "ok" else base,
                                                    "variant_outcome": res[0] if res[0] == "ok" else res, "first_difference": dd,
                                                    "gap": sig_gap}})
        break
    obs["counters"]["layouts_compared"] = n
    obs["evaluations"] = n + 1
    # content spans
    if base[0] == "ok":
        for kind, content in content_spans(lines):
            obs["counters"]["content_spans_checked"] = obs["counters"].get("content_spans_checked", 0) + 1
            if content not in base[1]:
                where = "IF-ELSE-condition-call" if kind == "string" and content in ifelse_call_literals(prog) else "other"
                sig = "C08/content/%s-not-preserved" % kind if where == "other" else "C08/content/string-lost/IF-ELSE-condition-call"
                obs["viols"].append({"sig": sig, "detail": {"content": content, "canonical": canon_text[:500]}})
                break
    if case.get("sample"):
        obs["sample"] = {"canonical": canon_text[:300], "layouts": [v[0] for v in variants][:12], "compared": n}
    return obs


# comment text and unquoted DATA items in mixed case, standing first on their line (so that with no blanks the keyword
# touches the line number) and behind a numeric constant: content is content wherever the keyword stands
CONTENT_PROGS = [
    [(10, [("rem", " Copyright 1986 by Jane Doe", "REM")]), (20, [("data", [("u", "Red"), ("u", "light blue"), ("q", "Mixed Case")])]),
     (30, [("read", [("var", "A$"), ("var", "B$"), ("var", "C$")]), ("print", [("e", ("var", "A$")), ("sep", ";"), ("e", ("var", "C$"))], None)])],
    [(10, [("let", ("var", "A"), ("num", 1.0, ["1"]), False), ("rem", " note Two", "REM")]), (20, [("rem", " it's Here", "'")]),
     (30, [("data", [("u", "x"), ("n", 5.0, ["5"]), ("u", "Yes No")])])],
    [(5, [("data", [("u", "rem not a comment"), ("u", "Data")])]), (7, [("rem", "data Not items, really", "REM")])],
    [(10, [("read", [("var", "A"), ("var", "B"), ("var", "C")])]), (30, [("data", [("n", 10.0, ["10"]), ("n", 20.0, ["20"]), ("h", 31, "1F")])])],
    [(10, [("read", [("var", "A"), ("var", "B$")])]), (30, [("data", [("q", "X Y"), ("n", 0.5, [".5"])])])],
    # the text ends in a name that is a string function's name without its $ (an ordinary variable)
    [(10, [("let", ("var", "B"), ("num", 2.0, ["2"]), False), ("let", ("var", "A"), ("var", "MID"), False)])],
    [(10, [("let", ("var", "CHR"), ("num", 3.0, ["3"]), False)]), (20, [("print", [("e", ("var", "CHR"))], None)])],
    [(10, [("let", ("var", "A"), ("bin", "+", ("var", "STRING"), ("var", "LEFT")), False)]), (20, [("let", ("var", "Q"), ("var", "HEX"), False)])],
    # comment text that holds the closing and opening marks of a BASIC09 comment, with runs of blanks behind them
    [(10, [("rem", " (*** SCORE TABLE ***)  BY  J.  DOE", "REM")]), (20, [("let", ("var", "A"), ("num", 1.0, ["1"]), False), ("rem", " *)  TWO  BLANKS  (*  AND  MORE", "'")]),
     (30, [("print", [("e", ("str", "*)  X  (*"))], None)])],
    # PRINT items that follow each other without a separator: two literals, a literal and a variable (the blank between
    # them is optional)
    [(10, [("print", [("e", ("str", "A")), ("e", ("str", "B"))], None)]), (20, [("print", [("e", ("str", "X")), ("e", ("var", "B$")), ("e", ("str", "Y Z")), ("sep", ";")], None)])],
    [(10, [("let", ("var", "B$"), ("str", "Q"), False)]), (20, [("print", [("e", ("str", "")), ("e", ("str", "")), ("e", ("var", "B$"))], ("num", 5.0, ["5"]))])],
    # a variable called GO in front of TO / a name beginning with SUB (GO TO and GO SUB are two-word spellings of GOTO / GOSUB)
    [(10, [("for", "I", ("var", "GO"), ("num", 3.0, ["3"]), None), ("next", ["I"])]), (20, [("print", [("e", ("var", "GO")), ("sep", ";"), ("e", ("var", "SUB"))], None)])],
    [(10, [("for", "I", ("bin", "+", ("num", 1.0, ["1"]), ("var", "GO")), ("var", "GO"), ("var", "GO")), ("next", ["I"])])],
]


def cases(tier, seed):
    for pr in CONTENT_PROGS:
        for md in ("family", "sweep"):
            for o in ({}, {"initialize_vars": True, "filter_unused_linenum": True}, {"output_dependencies": True, "procname": "p"}):
                yield {"mode": md, "prog": pr, "seed": seed, "opts": o}
    n = 250 if tier == "quick" else 30000
    for i in range(n):
        yield {"mode": "family", "seed": seed * 3571 + i, "knobs": {"max_depth": 1 + i % 2}, "nlines": 2 + i % 5,
               "opts": [{}, {"initialize_vars": True}][i % 2], "sample": i % 100 == 0}
    nr = 120 if tier == "quick" else 8000
    for i in range(nr):
        yield {"mode": "family" if i % 3 else "sweep", "reuse": True, "seed": seed * 6007 + i, "opts": [{}, {"initialize_vars": True}][i % 2],
               "sample": i % 60 == 0}
    for i in range(len(CLI_LAST_LINES)):
        for fl in ([], ["-l", "-z"], ["-D"]):
            yield {"mode": "cli_tail", "last": i, "flags": fl}
    m = 150 if tier == "quick" else 6000
    for i in range(m):
        yield {"mode": "sweep", "seed": seed * 7919 + i, "knobs": {"max_depth": 1}, "nlines": 1 + i % 2, "opts": {}, "sample": i % 70 == 0}
