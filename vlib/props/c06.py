"""C06 - every jump lands on the line it names; label filtering never breaks a target; programs that must be
refused are refused; the 32700 dispatcher routes break / error to the right handler."""
import random
import re

from .. import harness
from ..b09ref import static
from ..cbref.ast import render
from ..gen import exprs as X

PROPERTY = "C06"
LEVEL = "exploration"
USES_REFERENCE_MODELS = True
RULE = ("case = random reference graph over 2-14 lines; references sit in GOTO/GOSUB, THEN/ELSE <line>, THEN GOTO, ELSE IF chains, "
        "nested IF arms, every position of ON lists, after ':' on multi-statement lines, ON ERR / ON BRK; self references and "
        "line 0 included; x filter_unused_linenum x add_suffix; refusal cases by deleting a target, inflating a number, "
        "duplicating a handler; distinct = (graph shape, options); non-trivial = the structural oracle was evaluated")
ASSUMPTIONS = ["each source line starts with PRINT \"L<n>\" as a marker: the emitted line labelled n must carry that marker",
               "identifier errnum of the dispatcher is the error-code source (alias of ERR), DESIGN.md 3.2 decision 9"]
REQUIRED_COUNTERS = ["graphs_checked"]


def cond(rng):
    return ("bin", rng.choice(["=", "<", ">"]), ("var", rng.choice("AB")), X.num(rng.randint(0, 3)))


def jump(rng, lines, depth=0):
    """A statement containing at least one line reference; returns (stmt, must_be_last)."""
    r = rng.random()
    t = lambda: rng.choice(lines)
    if r < 0.2:
        return ("goto", t()), False
    if r < 0.35:
        return ("gosub", t()), False
    if r < 0.5:
        return ("on", ("var", "A"), rng.choice(["GOTO", "GOSUB"]), [t() for _ in range(rng.randint(1, 5))]), False
    if r < 0.6:
        return ("if", cond(rng), ("line", t()), [], None), True
    if r < 0.7:
        return ("if", cond(rng), ("line", t()), [], ("line", t())), True
    if r < 0.78:
        return ("if", cond(rng), ("stmts", [("goto", t())]), [], ("stmts", [("let", ("var", "B"), X.num(1), False), ("gosub", t())])), True
    if r < 0.9:
        n = rng.randint(1, 3)
        elifs = [(cond(rng), ("line", t()) if rng.random() < 0.6 else ("stmts", [("goto", t())])) for _ in range(n)]
        els = rng.choice([None, ("line", t()), ("stmts", [("gosub", t())])])
        return ("if", cond(rng), ("line", t()), elifs, els), True
    if depth < 2:
        inner, _ = jump(rng, lines, depth + 1)
        if inner[0] == "if" and inner[4] is None and not inner[3]:
            inner = ("if", inner[1], inner[2], [], ("line", t()))
        return ("if", cond(rng), ("stmts", [inner]), [], ("stmts", [("goto", t())]) if inner[0] != "if" or True else None), True
    return ("goto", t()), False


def build(case):
    rng = random.Random(case["seed"])
    n = rng.randint(2, 14) if not case.get("big") else rng.randint(60, 250)
    first = 0 if rng.random() < 0.25 else rng.randint(1, 50)
    nums = sorted(set([first] + rng.sample(range(first + 1, first + 400), n - 1)))
    mult = rng.choice([1, 1, 10, 70])
    nums = [x * mult for x in nums]
    prog = []
    have_err = have_brk = False
    err_t = brk_t = None
    targets = list(nums)
    for num in nums:
        if case.get("spacers") and num != nums[-1] and rng.random() < 0.2:
            # a line that holds nothing but its number: still a line, and a legal jump target (control falls through)
            prog.append((num, []))
            continue
        stmts = [("print", [("e", ("str", "L%d" % num))], None)]
        k = rng.choice([0, 1, 1, 1, 2])
        last = False
        for _ in range(k):
            if last:
                break
            if rng.random() < 0.12 and not have_err:
                err_t = rng.choice(targets)
                stmts.append(("onerr", err_t))
                have_err = True
                continue
            if rng.random() < 0.1 and not have_brk:
                brk_t = rng.choice(targets)
                stmts.append(("onbrk", brk_t))
                have_brk = True
                continue
            if rng.random() < 0.3:
                stmts.append(("let", ("var", "A"), X.num(rng.randint(0, 3)), False))
            st, last = jump(rng, targets)
            stmts.append(st)
        prog.append((num, stmts))
    return prog, err_t, brk_t


def references(prog):
    refs = set()

    def walk(stmts):
        for s in stmts:
            k = s[0]
            if k in ("goto", "gosub", "onerr", "onbrk"):
                refs.add(s[1])
            elif k == "on":
                refs.update(s[3])
            elif k == "if":
                for b in [s[2]] + [b for _, b in s[3]] + ([s[4]] if s[4] is not None else []):
                    if b[0] == "line":
                        refs.add(b[1])
                    else:
                        walk(b[1])
    for n, st in prog:
        walk(st)
    return refs


def labels_and_markers(out):
    """-> (dict label -> [statement objects' first print text], all jump targets, statement kinds sequence, parse error)"""
    procs, err = harness.parse_b09(out)
    if procs is None:
        return None, None, None, err
    main = procs[-1]
    inf = static.analyse(main)
    lab = {}
    for label, idxs in inf.labels.items():
        for idx in idxs:
            s = main.body[idx]
            marker = None
            if s.k == "print" and s.items and s.items[0][0] == "e" and s.items[0][1][0] == "str":
                marker = s.items[0][1][1]
            lab.setdefault(label, []).append(marker)
    # a line that carries only its label is not a statement: with the label filter on it becomes an empty line
    seq = [(s.k, getattr(s, "target", None), tuple(getattr(s, "targets", []) or [])) for s in main.body
           if not (s.k == "rem" and not getattr(s, "text", ""))]
    return lab, inf.jumps, seq, None


def run_case(case):
    kind = case["kind"]
    obs = {"counters": {}, "viols": [], "sets": {}}
    prog, err_t, brk_t = build(case)
    nums = [n for n, _ in prog]
    refs = references(prog)
    from ..gen import progtools

    obs["key"] = "%s|%s|%s|%s" % (kind, progtools.prog_key(prog), [nums.index(r) if r in nums else -1 for r in sorted(refs)],
                                  sorted((case.get("opts") or {}).items()))

    def v(sig, **kw):
        obs["viols"].append({"sig": sig, "detail": dict(kw, source=render(prog)[:1200], options=case.get("opts"))})

    if kind == "library":
        # the bundled runtime procedures are emitted text too: inside each of them (BASIC09 line numbers are local to a
        # procedure) every GOTO / GOSUB / ON ERROR GOTO names a line that labels exactly one statement of that procedure
        lib = harness.library()
        obs["key"] = sorted(lib)
        n_ = 0
        for name, ent in sorted(lib.items()):
            inf = static.analyse(ent["proc"])
            for kind_j, target, idx in inf.jumps:
                n_ += 1
                cnt = len(inf.labels.get(target, []))
                if cnt != 1:
                    obs["viols"].append({"sig": "C06/library/%s/target-labels-%d-lines" % (kind_j, cnt),
                                         "detail": {"procedure": name, "target": target}})
        obs["counters"]["graphs_checked"] = len(lib)
        obs["counters"]["references_checked"] = n_
        obs["counters"]["library_jumps_checked"] = n_
        return obs
    if kind == "boundary":
        # the largest admissible line number is 32699 (32700 is the dispatcher's)
        n = case["line"]
        text = '%d PRINT "L%d":GOTO %d\n' % (n, n, n)
        conv = harness.convert(text, **case.get("opts", {}))
        obs["key"] = "boundary|%d|%s" % (n, sorted(case.get("opts", {}).items()))
        obs["counters"]["graphs_checked"] = 1
        if n <= 32699:
            if not conv["ok"]:
                v("C06/boundary/largest-line-refused", line=n, outcome=conv.get("exc"))
            else:
                lab, jumps, seq, perr = labels_and_markers(conv["out"])
                if lab is None or lab.get(n) != ["L%d" % n]:
                    v("C06/boundary/label-lost", line=n)
        elif conv["ok"]:
            v("C06/not-refused/line-too-large", line=n)
        elif conv["exc"] != "LineNumberTooLargeException":
            v("C06/wrong-refusal-class/line-too-large", got=conv["exc"])
        return obs
    if kind == "refuse":
        what = case["what"]
        rng = random.Random(case["seed"] + 1)
        if what == "missing-target":
            # just behind the last line, or far away - also beyond the largest number a line may have
            tgt = rng.choice([max(nums) + 7, max(nums) + 7, 32699, 32700, 32768, 40000, 63999, 65535])
            if tgt in nums:
                tgt = max(nums) + 7
            prog[rng.randrange(len(prog))][1].insert(1, ("goto", tgt) if rng.random() < 0.5 else
                                                    ("on", ("var", "A"), "GOTO", [nums[0], tgt]))
            want = "ParseError"
        elif what == "missing-target-in-remark":
            # the missing line number stands, like a numbered line, inside a remark (or an open string constant) behind a
            # character that line-splitting routines of the host language take for a line end: it is still missing
            tgt = max(nums) + 7
            ch = rng.choice(["\x0b", "\x0c", "\x1c", "\x1d", "\x1e", "\x85", "\u2028", "\u2029"])
            prog[rng.randrange(len(prog))][1].insert(1, ("goto", tgt) if rng.random() < 0.5 else ("gosub", tgt))
            prog.append((max(nums) + 3, [("rem", " END OF PAGE" + ch + "%d PRINT 1" % tgt, "REM")] if rng.random() < 0.6 else
                         [("let", ("var", "Q$"), ("ostr", "PAGE" + ch + "%d PRINT 1" % tgt), False)]))
            want = "ParseError"
        elif what == "line-too-large":
            prog.append((rng.choice([32700, 32701, 40000, 65535]), [("rem", " BIG", "REM")]))
            want = "LineNumberTooLargeException"
        elif what == "two-on-err":
            same = rng.random() < 0.5          # both handlers may well name the same line: still two ON ERR
            prog[0][1].append(("onerr", nums[0]))
            prog[-1][1].insert(1, ("onerr", nums[0] if same else nums[-1]))
            if err_t is not None:
                pass
            want = "ParseError"
        else:
            same = rng.random() < 0.5
            prog[0][1].append(("onbrk", nums[0]))
            prog[-1][1].insert(1, ("onbrk", nums[0] if same else nums[-1]))
            want = "ParseError"
        # an IF must stay the last statement of its line
        prog = [(n, sorted(st, key=lambda s: s[0] == "if")) for n, st in prog]
        text = render(prog)
        conv = harness.convert(text, **case.get("opts", {}))
        obs["counters"]["refusal_cases"] = 1
        obs["counters"]["graphs_checked"] = 1
        if conv["ok"]:
            v("C06/not-refused/" + what, emitted=conv["out"][-400:])
        elif not conv["documented"]:
            obs["counters"]["internal_instead_of_refusal"] = 1   # C15 owns internal errors
        elif conv["exc"] != want and not (conv["exc"] in ("ParseError", "IncompleteParseError") and want == "ParseError"):
            # a grammar refusal of the generated text is also acceptable only if it is the documented class for this case
            v("C06/wrong-refusal-class/" + what, got=conv["exc"], want=want)
        elif want == "ParseError" and conv["site"] != "compiler.py:convert":
            pass
        return obs
    text = render(prog)
    opts = dict(case.get("opts", {}))
    conv = harness.convert(text, **opts)
    if not conv["ok"]:
        # the graph programs have every target defined, numbers below 32700 and at most one handler of each kind:
        # refusing one of them is as wrong as converting one that must be refused
        obs["counters"]["graphs_checked"] = 1
        if conv["documented"]:
            v("C06/valid-program-refused/" + conv["exc"], message=conv.get("msg"))
        else:
            obs["counters"]["internal_error"] = 1
        return obs
    lab, jumps, seq, perr = labels_and_markers(conv["out"])
    if lab is None:
        obs["nontrivial"] = False
        obs["counters"]["unparseable_output"] = 1
        return obs
    obs["counters"]["graphs_checked"] = 1
    obs["counters"]["references_checked"] = len(refs)
    handler = err_t is not None or brk_t is not None
    spacers = {n for n, st in prog if not st}
    obs["counters"]["spacer_lines"] = len(spacers)
    suffix = opts.get("add_suffix", True)
    # (a) every jump target labels exactly one line, and that line is the one from the source line
    for kind_j, target, idx in jumps:
        if target == 32700:
            if not suffix:
                continue      # the caller asked for no suffix
            if len(lab.get(32700, [])) != 1:
                v("C06/dispatcher/not-exactly-one-32700", count=len(lab.get(32700, [])))
            continue
        marks = lab.get(target, [])
        spacer = target in spacers
        if len(marks) != 1:
            v("C06/target/%s/labels-%d-lines" % (kind_j, len(marks)), target=target)
        elif marks[0] != (None if spacer else "L%d" % target):
            v("C06/target/%s/wrong-line" % kind_j, target=target, marker=marks[0])
    emitted_targets = {t for k, t, i in jumps if t != 32700}
    src_refs = {r for r in refs if not (r in (err_t, brk_t) and r not in
                                        references([(n, [s for s in st if s[0] not in ("onerr", "onbrk")]) for n, st in prog]))}
    # references of the source must all appear as jump targets (handlers are reached through the dispatcher)
    lost = {r for r in references([(n, [s for s in st if s[0] not in ("onerr", "onbrk")]) for n, st in prog])} - emitted_targets
    if lost:
        v("C06/reference-lost", lost=sorted(lost))
    user_labels = {l for l in lab if l != 32700}
    if opts.get("filter_unused_linenum"):
        want = {r for r in refs if r in nums}
        if user_labels != want:
            v("C06/filter/label-set", extra=sorted(user_labels - want), missing=sorted(want - user_labels))
        other = harness.convert(text, **dict(opts, filter_unused_linenum=False))
        if other["ok"]:
            _, _, seq2, _ = labels_and_markers(other["out"])
            if seq2 is not None and seq2 != seq:
                v("C06/filter/statement-sequence-changed", n_on=len(seq), n_off=len(seq2))
    else:
        want = set(nums)
        if 0 in want and 0 not in refs:
            want.discard(0)
        if user_labels != want:
            v("C06/nofilter/label-set", extra=sorted(user_labels - want), missing=sorted(want - user_labels))
    # (e) dispatcher
    if handler and suffix:
        if len(lab.get(32700, [])) != 1:
            v("C06/dispatcher/not-exactly-one-32700", count=len(lab.get(32700, [])))
        else:
            # code 2 is the break key; every other run-time error number goes to the ON ERR line (54 is BASIC09's RETURN
            # without GOSUB, whose Color BASIC number happens to be 2; 43, 52, 56, 67 are the codes the runtime raises itself)
            others = (1, 3, 7, 10, 43, 52, 54, 56, 67, 215, 255) if case.get("tier") != "thorough" else tuple(c for c in range(1, 256) if c != 2)
            for code, tgt in ((2, brk_t if brk_t is not None else err_t),) + tuple((c, err_t) for c in others):
                if tgt is None:
                    continue
                b = harness.run_b09(conv["out"], budget=400, start_label=32700, err=code)
                first = None
                for ev in b["events"]:
                    if ev[0] == "print":
                        first = ev[1][1] if len(ev) > 1 and ev[1][0] == "s" else None
                        break
                obs["counters"]["dispatcher_runs"] = obs["counters"].get("dispatcher_runs", 0) + 1
                # a handler line that holds only its number falls through to the next line with a statement
                land = next((n for n, st in prog if n >= tgt and st), None)
                if first != ("L%d" % land if land is not None else None):
                    v("C06/dispatcher/wrong-handler", code=code, want=tgt, reached=first, status=b["status"], error=b["error"])
    elif not handler and 32700 in lab:
        v("C06/dispatcher/unrequested")
    if case.get("sample"):
        obs["sample"] = {"source": text[:400], "options": opts, "referenced": sorted(refs), "labels_kept": sorted(user_labels)}
    return obs


OPTS = [{}, {"filter_unused_linenum": True}, {"add_suffix": False}, {"filter_unused_linenum": True, "add_suffix": False},
        {"filter_unused_linenum": True, "initialize_vars": True}, {"initialize_vars": True}]


def cases(tier, seed):
    n = 2500 if tier == "quick" else 200000
    for i in range(n):
        yield {"kind": "graph", "seed": seed * 48271 + i, "opts": OPTS[i % len(OPTS)], "sample": i % 700 == 0, "big": i % 40 == 39, "tier": tier,
               "spacers": i % 5 == 2}
    yield {"kind": "library", "seed": 0, "opts": {}}
    for ln in (32698, 32699, 32700, 32701, 32767, 32768, 65535, 100000):
        for o in OPTS[:2]:
            yield {"kind": "boundary", "line": ln, "seed": ln, "opts": o}
    whats = ["missing-target", "line-too-large", "two-on-err", "two-on-brk", "missing-target-in-remark"]
    for i in range(n // 8):
        # (i // 5: every kind of refusal under every option set - what must be refused does not depend on the options)
        yield {"kind": "refuse", "what": whats[i % 5], "seed": seed * 69621 + i, "opts": OPTS[(i // 5) % len(OPTS)]}
