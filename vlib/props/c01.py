"""C01 - translated expressions evaluate to the same values as in Color BASIC.

Differential execution: the abstract source program runs on the Color BASIC reference,
the text emitted by the real convert() runs on the BASIC09 reference; result variables,
branches taken, printed values, loop ranges, subscripts and ON targets are compared per
valuation.
"""
import random

from .. import harness
from ..cbref import exprparse
from ..cbref.ast import render, render_expr, is_str
from ..gen import exprs as X

PROPERTY = "C01"
LEVEL = "exploration"
USES_REFERENCE_MODELS = True
RULE = ("case = one expression tree in one statement context (assign, IF with and without ELSE, PRINT item, "
        "FOR start/limit/step, subscript read/write, ON selector), evaluated under up to 8 valuations of the free "
        "variables; bounded-exhaustive over operator shapes (quick: <=2 operators, thorough: <=3 plus restricted 4), "
        "every literal spelling, every built-in function on each operand kind and nested two deep, plus seeded random "
        "trees; distinct = distinct (expression shape with literal spellings, context); non-trivial = at least 3 "
        "valuations inside the fragment were compared")
ASSUMPTIONS = [
    "BASIC09 operator precedence NOT,unary- > ^ > */ > +- > relational > AND > OR/XOR, left associative (reference manual)",
    "BASIC09 REAL->INTEGER conversion rounds; INT truncates toward zero; FIX rounds; LAND/LOR/LNOT work on 16-bit integers",
    "BASIC09 arithmetic on two INTEGER operands is integer arithmetic (/ truncates); LEN, ASC, PEEK, LAND/LOR/LNOT yield INTEGER",
    "Color BASIC precedence table of the Extended Color BASIC ROM (FRMEVL); relational yields -1/0; AND/OR/NOT on 16-bit integers",
    "values stay in a domain where 40-bit and 64-bit floating point agree (multiples of 1/64, |x|<=1e6); other valuations are discarded",
    "RND/PEEK are uninterpreted but identical on both sides",
]
REQUIRED_COUNTERS = ["valuations_compared", "b09_runs"]

VALUATIONS = [
    {"A": 3, "B": 5, "C": 7, "D": 2, "A$": "A", "B$": "AB", "C$": ""},
    {"A": 11, "B": 13, "C": 2, "D": 5, "A$": "HELLO", "B$": "LL", "C$": "B"},
    {"A": 0, "B": 1, "C": -1, "D": 2, "A$": "", "B$": "A", "C$": "A"},
    {"A": -3, "B": 2, "C": 4, "D": 1, "A$": "B", "B$": "B", "C$": "AB"},
    {"A": 1, "B": 0, "C": 3, "D": -2, "A$": "AB", "B$": "", "C$": "ABC"},
    {"A": 2, "B": 2, "C": 2, "D": 2, "A$": "ABC", "B$": "C", "C$": "BC"},
    {"A": 0.5, "B": 2.5, "C": 1, "D": -1.5, "A$": "XY", "B$": "Y", "C$": "X"},
    {"A": 9, "B": -1, "C": 0, "D": 6, "A$": "12", "B$": "2", "C$": "1"},
    {"A": -2.5, "B": -0.5, "C": 1.5, "D": 3, "A$": "Z", "B$": "ZZ", "C$": "AZ"},
]

NUM_CONTEXTS = ["assign", "self_assign", "if_else", "if_noelse", "print", "for_start", "for_limit", "for_step", "sub_read",
                "sub_write", "on"]
COND_CONTEXTS = ["if_else", "if_noelse"]
STR_CONTEXTS = ["assign_s", "self_assign_s", "print_s", "if_s", "if_s_noelse", "print_then_assign_s"]
CONVERTIBLE = {"INT", "VAL", "STR$", "HEX$", "INSTR", "STRING$", "INKEY$", "BUTTON", "JOYSTK", "POINT"}


def lit_signed(v):
    n = X.num(abs(v))
    return ("un", "-", n) if v < 0 else n


def valuation_stmts(val):
    out = []
    for k, v in val.items():
        if k.endswith("$"):
            out.append(("let", ("var", k), ("str", v), False))
        else:
            out.append(("let", ("var", k), lit_signed(v), False))
    return out


def block(ctx, e, base, rv, v_e):
    """Statements (as program lines) that exercise expression e in context ctx; results go to numeric
    variable rv (or rv+'$').  v_e: the source value of e under this valuation (needed for loop bounds)."""
    R = ("var", rv)
    if ctx == "assign":
        return [(base + 1, [("let", R, e, False)])]
    if ctx == "self_assign":
        # the target is one of the expression's own variables (a by-reference result parameter may alias an operand)
        return [(base + 1, [("let", ("var", "A"), e, False), ("let", R, ("var", "A"), False)])]
    if ctx == "self_assign_d":
        # the same with D as the target (D is negative with a fraction in two valuations), and through an array element
        return [(base + 1, [("let", ("var", "D"), e, False), ("let", R, ("var", "D"), False)])]
    if ctx == "self_assign_x":
        x1 = ("arr", "Y", [X.num(1)])
        return [(base + 1, [("let", x1, ("bin", "-", ("var", "D"), ("num", 0.25, [".25"])), False), ("let", x1, X.subst(e, ("var", "D"), x1), False), ("let", R, x1, False)])]
    if ctx == "self_assign_s":
        return [(base + 1, [("let", ("var", "A$"), e, False), ("let", ("var", rv + "$"), ("var", "A$"), False)])]
    if ctx == "assign_s":
        return [(base + 1, [("let", ("var", rv + "$"), e, False)])]
    if ctx == "print_then_assign_s":
        # a number is printed (its text passes through a string temporary) before the string expression is evaluated
        return [(base + 1, [("print", [("e", ("var", "A")), ("sep", ";"), ("e", ("fn", "STR$", [("var", "B")]))], None)]),
                (base + 2, [("let", ("var", rv + "$"), e, False)])]
    if ctx == "assign_arr_s":
        # the same through a string array element (a different statement class in the tool)
        return [(base + 1, [("let", ("arr", "S$", [X.num(base // 100 % 9)]), e, False)]),
                (base + 2, [("let", ("var", rv + "$"), ("arr", "S$", [X.num(base // 100 % 9)]), False)])]
    if ctx == "if_else":
        return [(base + 1, [("if", e, ("stmts", [("let", R, X.num(1), False)]), [], ("stmts", [("let", R, X.num(2), False)]))])]
    if ctx == "if_noelse":
        return [(base + 1, [("let", R, X.num(2), False), ("if", e, ("stmts", [("let", R, X.num(1), False)]), [], None)])]
    if ctx == "if_s":
        c = ("bin", "=", e, ("var", "B$"))
        return [(base + 1, [("if", c, ("stmts", [("let", R, X.num(1), False)]), [], ("stmts", [("let", R, X.num(2), False)]))])]
    if ctx == "if_s_noelse":
        c = ("bin", "=", e, ("var", "B$"))
        return [(base + 1, [("let", R, X.num(2), False), ("if", c, ("stmts", [("let", R, X.num(1), False)]), [], None)])]
    if ctx in ("print", "print_s"):
        return [(base + 1, [("print", [("e", e)], None)])]
    if ctx == "for_start":
        return [(base + 1, [("let", ("var", "S"), X.num(0), False),
                            ("for", "I", e, lit_signed(v_e + 2), None),
                            ("let", ("var", "S"), ("bin", "+", ("bin", "*", ("var", "S"), X.num(2)), ("var", "I")), False),
                            ("next", ["I"]), ("let", R, ("var", "S"), False)])]
    if ctx == "for_limit":
        return [(base + 1, [("let", ("var", "S"), X.num(0), False),
                            ("for", "I", lit_signed(v_e - 2), e, None),
                            ("let", ("var", "S"), ("bin", "+", ("bin", "*", ("var", "S"), X.num(2)), ("var", "I")), False),
                            ("next", ["I"]), ("let", R, ("var", "S"), False)])]
    if ctx == "for_step":
        return [(base + 1, [("let", ("var", "S"), X.num(0), False),
                            ("for", "I", X.num(0), lit_signed(3 * v_e), e),
                            ("let", ("var", "S"), ("bin", "+", ("bin", "*", ("var", "S"), X.num(2)), ("var", "I")), False),
                            ("next", ["I"]), ("let", R, ("var", "S"), False)])]
    if ctx == "sub_read":
        return [(base + 1, [("let", R, ("arr", "X", [e]), False)])]
    if ctx == "sub_write":
        return [(base + 1, [("let", ("arr", "Y", [e]), X.num(77), False)])]
    if ctx == "on":
        return [(base + 1, [("let", R, X.num(0), False), ("on", e, "GOTO", [base + 2, base + 3, base + 4]),
                            ("let", R, X.num(9), False), ("goto", base + 5)]),
                (base + 2, [("let", R, X.num(1), False), ("goto", base + 5)]),
                (base + 3, [("let", R, X.num(2), False), ("goto", base + 5)]),
                (base + 4, [("let", R, X.num(3), False)]),
                (base + 5, [("rem", " END OF BLOCK", "REM")])]
    raise ValueError(ctx)


PROLOGUE = [(1, [("dim", [("X", [20], ["20"]), ("Y", [20], ["20"])])]),
            (2, [("for", "I", X.num(0), X.num(20), None),
                 ("let", ("arr", "X", [("var", "I")]), ("bin", "+", ("var", "I"), X.num(100)), False),
                 ("next", ["I"])])]


# contexts whose first block line starts with an initialiser statement before the statement that holds e
_LEAD = {"if_noelse": 1, "if_s_noelse": 1, "for_start": 1, "for_limit": 1, "for_step": 1, "on": 1}
PLACES = ["late", "skipif", "jump"]


def split_ctx(ctx):
    base, _, place = ctx.partition("@")
    return base, (place or None)


def build_program(ctx, e, vals_with_values):
    """ctx may carry a placement suffix that controls what comes immediately before the statement holding e:
    @late   - the variables get decoy values first and their real values in the statements directly before it
              (rotated, so that every variable is the last one assigned in some block);
    @skipif - the statement directly before it (in the text) sits in an IF arm that is not taken;
    @jump   - it starts a line reached by a GOTO over a line that is never executed.
    Anything the tool hoists out of e must be computed after all of that."""
    ctx, place = split_ctx(ctx)
    prog = list(PROLOGUE)
    n = len(vals_with_values)
    for k, (val, v_e) in enumerate(vals_with_values):
        base = 100 * (k + 1)
        rv = "R%d" % (k + 1)
        if place is None:
            prog.append((base, valuation_stmts(val)))
            prog.extend(block(ctx, e, base, rv, v_e))
            continue
        lines = block(ctx, e, base + 10, rv, v_e)
        j = _LEAD.get(ctx, 0)
        first = lines[0][1]
        lead, rest = first[:j], first[j:]
        if place == "late":
            decoy = vals_with_values[(k + 1) % n][0]
            prog.append((base, valuation_stmts(decoy)))
            real = valuation_stmts(val)
            r = k % len(real)
            prog.append((base + 11, lead + real[r:] + real[:r] + rest))
        elif place == "skipif":
            prog.append((base, valuation_stmts(val)))
            prog.append((base + 5, lead + [("if", ("bin", "=", X.num(1), X.num(2)),
                                            ("stmts", [("let", ("var", "Q9"), X.num(1), False)]), [], None)]))
            prog.append((base + 11, rest))
        else:
            prog.append((base, valuation_stmts(val)))
            prog.append((base + 5, lead + [("goto", base + 11)]))
            prog.append((base + 6, [("let", ("var", "Q9"), X.num(1), False)]))
            prog.append((base + 11, rest))
        prog.extend(lines[1:])
    return prog


def source_value(ctx, e, val):
    """Run the single-valuation program on the Color BASIC reference.  -> (status, value of e or None)"""
    from ..cbref.interp import CBMachine, CBError, OutOfDomain, StepBudget

    ctx = split_ctx(ctx)[0]

    m = CBMachine(PROLOGUE + [(3, valuation_stmts(val))])
    try:
        m.run()
        v = m.ev(e)
    except (CBError, OutOfDomain, StepBudget) as exc:
        return type(exc).__name__, None
    if isinstance(v, str):
        return "ok", v
    if ctx in ("for_start", "for_limit", "for_step"):
        if abs(v) > 50 or (ctx == "for_step" and v == 0):
            return "skip", None
    if ctx in ("sub_read", "sub_write"):
        if not float(v).is_integer() or v < 0 or v > 20:
            return "skip", None
    if ctx == "on":
        if not float(v).is_integer() or v < 0 or v > 255:
            return "skip", None
    if ctx == "print" and v < 0:
        return "skip", None   # negative numbers print with an extra blank: C03's known finding, not an expression matter
    return "ok", v


STORAGE = [32]          # the string size the case is converted with (set by _run_case from case["storage"])


def evaluate(ctx, e):
    """Full differential run of one (context, expression).  -> dict"""
    res = {"status": None, "diffs": [], "compared": 0, "refused": False}
    usable = []
    for val in VALUATIONS:
        st, v = source_value(ctx, e, val)
        if st == "ok":
            usable.append((val, v))
    res["usable"] = len(usable)
    if len(usable) < 3:
        res["status"] = "dropped"
        return res
    prog = build_program(ctx, e, usable)
    cb = harness.run_cb(prog, budget=20000)
    if cb["status"] != "ok":
        res["status"] = "dropped"
        res["why"] = "source program: %s %s" % (cb["status"], cb["error"])
        return res
    text = render(prog)
    res["source"] = text
    conv = harness.convert(text) if STORAGE[0] == 32 else harness.convert(text, default_str_storage=STORAGE[0])
    if not conv["ok"]:
        res["status"] = "refused" if conv["documented"] else "internal"
        res["conv"] = {k: conv.get(k) for k in ("exc", "site", "stem")}
        return res
    res["emitted"] = conv["out"]
    b = harness.run_b09(conv["out"], budget=60000, storage=STORAGE[0])
    ctx = split_ctx(ctx)[0]
    res["b09_status"] = b["status"]
    if b["status"] != "ok":
        res["status"] = "b09-" + b["status"] + ("-typeclash" if (b["error"] or {}).get("typeclash") else "")
        res["b09_error"] = b["error"]
        return res
    if ctx in ("print", "print_s"):
        sa = [t for t in harness.print_stream(cb["events"])]
        sb = [t for t in harness.print_stream(b["events"])]
        if ctx == "print":
            def nums(st):
                out = []
                for t in st:
                    if t[0] == "s":
                        try:
                            out.append(float(t[1].strip()))
                        except ValueError:
                            out.append(t[1])
                    else:
                        out.append(t)
                return out
            sa, sb = nums(sa), nums(sb)
        if sa != sb:
            res["diffs"].append(("print-stream", str(sa)[:300], str(sb)[:300]))
        res["compared"] = len(usable)
    else:
        names = None
        diffs = harness.compare_stores(cb["store"], b["store"], names)
        res["diffs"] = [d for d in diffs if d[0] not in ("I",)]
        res["compared"] = len(usable)
    res["status"] = "violation" if res["diffs"] else "held"
    return res


def fn_taints(e):
    t = set()
    fns = X.all_fns(e)
    if "STR$" in fns:
        t.add("STR$-trailing-blank")
    return t


def run_case(case):
    from ..cbref import interp as cbi

    cbi.APPROX[0] = bool(case.get("approx"))
    STORAGE[0] = case.get("storage", 32)
    try:
        return _run_case(case)
    finally:
        cbi.APPROX[0] = False
        STORAGE[0] = 32


def _run_case(case):
    ctx = case["ctx"]
    e = case["e"]
    key = ctx + "|" + X.shape_key(e) + ("|s%d" % case["storage"] if case.get("storage") else "")
    obs = {"key": key, "counters": {"cases": 1}, "viols": [], "sets": {"contexts": [ctx]}}
    # oracle self-check: rendering re-parses (independent precedence parser) to the abstract tree
    try:
        if e[0] == "ostr":
            pass        # an unterminated constant is a whole right-hand side, not an expression the FRMEVL parser handles
        elif exprparse.normal(exprparse.parse(render_expr(e))) != exprparse.normal(e):
            obs["counters"]["oracle_selfcheck_failures"] = 1
            obs["nontrivial"] = False
            return obs
    except ValueError:
        obs["counters"]["oracle_selfcheck_failures"] = 1
        obs["nontrivial"] = False
        return obs
    r = evaluate(ctx, e)
    st = r["status"]
    obs["counters"]["status_" + st] = 1
    obs["nontrivial"] = st in ("held", "violation") or st.startswith("b09-")
    if r.get("compared"):
        obs["counters"]["valuations_compared"] = r["compared"]
    if "emitted" in r:
        obs["counters"]["b09_runs"] = 1
    taints = X.taint(e) if e[0] != "ostr" else set()
    ftaints = fn_taints(e)
    if not taints and not ftaints and not X.has_int_division(e):
        obs["counters"]["cases_untainted"] = 1
    if st in ("held", "dropped", "refused"):
        if st == "held" and case.get("sample"):
            obs["sample"] = {"context": ctx, "expression": render_expr(e), "valuations": r["compared"],
                             "emitted_excerpt": [ln for ln in r["emitted"].split("\n") if ln.startswith("101 ")][:1]}
        return obs
    if st == "internal":
        # an internal crash on an in-fragment expression is C15's business; it is recorded here as a lost case
        obs["counters"]["internal_errors"] = 1
        return obs
    kind = st if st != "violation" else "value"
    detail = {"context": ctx, "expression": render_expr(e), "kind": kind, "diffs": r.get("diffs", [])[:4],
              "b09_error": r.get("b09_error"), "source": r.get("source", "")[:1500], "emitted": r.get("emitted", "")[-1500:]}
    # counterfactual diagnosis: re-run the same meaning with the known triggers removed -- explicit parentheses
    # around every prefix group (T1) and/or the IF form without ELSE (T2); the case is attributed to a known
    # mechanism only if removing its trigger makes the case pass
    bctx, place = split_ctx(ctx)
    ifelse_trigger = bctx in ("if_else", "if_s") and bool(X.all_fns(e) & CONVERTIBLE)
    ctx2 = {"if_else": "if_noelse", "if_s": "if_s_noelse"}.get(bctx, bctx) + ("@" + place if place else "")
    attempts = []
    if taints:
        attempts.append(("C01/group/" + sorted(taints)[0], ctx, X.dehazard(e)))
    if ifelse_trigger:
        attempts.append(("C01/ifelse/preassignments-dropped", ctx2, e))
    if taints and ifelse_trigger:
        attempts.append(("C01/ifelse/preassignments-dropped", ctx2, X.dehazard(e)))
    if X.has_int_division(e):
        # T3: BASIC09 divides two INTEGER-typed operands (LEN, ASC, LAND/LOR/LNOT results) as integers
        base = list(attempts)
        attempts.append(("C01/value/INTEGER-DIVISION", ctx, X.realify_divisions(e)))
        for sig0, c0, e0 in base:
            attempts.append((sig0, c0, X.realify_divisions(e0)))
    if X.has_int_arith(e):
        # T4: + - * on two INTEGER-typed operands wrap at 16 bits in BASIC09 (same root cause as T3)
        base = list(attempts)
        attempts.append(("C01/value/INTEGER-OVERFLOW", ctx, X.realify_arith(e)))
        for sig0, c0, e0 in base:
            if sig0 != "C01/value/INTEGER-DIVISION":
                attempts.append((sig0 if sig0.startswith("C01/value/INTEGER") else "C01/value/INTEGER-OVERFLOW", c0, X.realify_arith(e0)))
    for sig, c2, e2 in attempts:
        r2 = evaluate(c2, e2)
        if r2["status"] in ("held", "dropped", "refused"):
            obs["viols"].append({"sig": sig, "detail": detail})
            return obs
        detail.setdefault("counterfactuals", []).append([sig, r2["status"]])
    if "STR$-trailing-blank" in ftaints:
        # hypothesis test: does the Color BASIC side, with STR$ emulated as 'PRINT format including the trailing
        # blank', agree with what the emitted program did?  Only then is the case attributed to that defect.
        from ..cbref import interp as cbi

        cbi.HYPOTHESIS.add("STR$-trailing-blank")
        try:
            variants = [(ctx, e)] + [(c2, e2) for _, c2, e2 in attempts]
            for c2, e2 in variants:
                r4 = evaluate(c2, e2)
                if r4["status"] in ("held", "dropped", "refused"):
                    obs["viols"].append({"sig": "C01/value/STR$-trailing-blank", "detail": detail})
                    return obs
        finally:
            cbi.HYPOTHESIS.discard("STR$-trailing-blank")
    obs["viols"].append({"sig": "C01/%s/%s" % (kind, ctx), "detail": detail})
    return obs


# ------------------------------------------------------------------ workload

NUM_LEAVES = [("var", "A"), ("var", "B"), ("var", "C"), ("var", "D")]


ARITH4 = ["/", "*", "+", "-"]


def cases(tier, seed):
    n = 0
    # 1. bounded-exhaustive arithmetic / logic shapes
    kmax = 2 if tier == "quick" else 3
    ops_bin = X.ARITH + X.LOGIC
    ops_un = ["-", "NOT"]
    for k in range(1, kmax + 1):
        for s in X.shapes(k, ops_bin, ops_un):
            e = X.fill(s, NUM_LEAVES)
            ctxs = NUM_CONTEXTS if (k <= 1 or tier == "thorough") else ["assign", "if_noelse", "for_limit", "sub_read"]
            for ctx in ctxs:
                if ctx in ("if_else", "if_noelse") and False:
                    continue
                n += 1
                yield {"ctx": ctx, "e": e, "sample": n % 97 == 0}
    # with literal leaves (signed-literal spellings meet the same precedence questions)
    lit_leaves = [X.num(2), X.num(3), ("var", "A"), X.num(2)]
    for k in range(1, kmax + 1):
        for s in X.shapes(k, ["^", "*", "-", "AND"], ["-"]):
            e = X.fill(s, lit_leaves)
            yield {"ctx": "assign", "e": e}
    # a variable combined with a small constant (the operands somebody might special-case: X^2, X*1, X+0, X/2, 2*X) under
    # every surrounding operator, on either side, without parentheses
    small = [X.num(1), X.num(2), X.num(3), ("num", 0.5, [".5"]), ("num", 2.0, ["2.0"]), X.num(0)]
    for outer in X.ARITH:
        for inner in X.ARITH:
            for lit in (small if tier == "thorough" else small[:4]):
                vl = ("bin", inner, ("var", "A"), lit)
                lv = ("bin", inner, lit, ("var", "A"))
                for e in (("bin", outer, ("var", "C"), vl), ("bin", outer, vl, ("var", "C")), ("bin", outer, ("var", "C"), lv)):
                    yield {"ctx": "assign", "e": e}
                if tier == "thorough":
                    yield {"ctx": "if_noelse", "e": ("bin", ">", ("bin", outer, ("var", "C"), vl), X.num(3))}
                    yield {"ctx": "assign", "e": ("bin", outer, ("bin", outer, ("var", "B"), vl), ("var", "C"))}
    if tier == "thorough":
        for s in X.shapes(4, X.ARITH + X.LOGIC, ["-", "NOT"]):
            e = X.fill(s, NUM_LEAVES)
            yield {"ctx": "assign", "e": e}
    # explicit parentheses at every position of small shapes
    for k in (1, 2):
        for s in X.shapes(k, ["+", "-", "*", "/", "^"], ["-"]):
            e = X.fill(s, NUM_LEAVES)
            if e[0] == "bin":
                yield {"ctx": "assign", "e": ("bin", e[1], ("par", e[2]), e[3])}
                yield {"ctx": "assign", "e": ("bin", e[1], e[2], ("par", e[3]))}
                yield {"ctx": "if_noelse", "e": ("par", e)}
    # 2. conditions: comparisons combined by AND / OR / NOT / parentheses
    rels = []
    for op in X.RELOPS + ("=<", "=>"):
        rels.append(("bin", op, ("var", "A"), ("var", "B")))
        rels.append(("bin", op, ("bin", "+", ("var", "A"), ("var", "C")), ("bin", "*", ("var", "B"), X.num(2))))
        rels.append(("bin", op, ("var", "A$"), ("var", "B$")))
        rels.append(("bin", op, ("bin", "+", ("var", "A$"), ("var", "C$")), ("var", "B$")))
    for rr in rels:
        for ctx in COND_CONTEXTS:
            yield {"ctx": ctx, "e": rr}
    cshapes = []
    for k in range(1, 3 if tier == "quick" else 4):
        cshapes.extend(X.shapes(k, ["AND", "OR"], []))
    r0 = random.Random(1234 + seed)
    for s in cshapes:
        for rep in range(3 if tier == "quick" else 6):
            leaves = [r0.choice(rels) for _ in range(5)]
            e = X.fill(s, leaves)
            for ctx in COND_CONTEXTS:
                yield {"ctx": ctx, "e": e}
            # NOT( ... ) and parenthesised sub-conditions
            yield {"ctx": "if_else", "e": ("un", "NOT", ("par", e))}
            if e[0] == "bin":
                yield {"ctx": "if_noelse", "e": ("bin", e[1], ("par", e[2]), ("un", "NOT", ("par", e[3])))}
                yield {"ctx": "if_else", "e": ("bin", e[1], ("un", "NOT", ("par", e[2])), e[3])}
    # NOT directly in front of a comparison / comparison chain (the hazardous adjacency)
    for a in rels[:8]:
        yield {"ctx": "if_else", "e": ("un", "NOT", a)}
        for b in rels[:4]:
            for op in ("AND", "OR"):
                yield {"ctx": "if_else", "e": ("bin", op, ("un", "NOT", a), b)}
                yield {"ctx": "if_noelse", "e": ("bin", op, a, b)}
    # bare numeric conditions
    for e in [("var", "A"), ("bin", "-", ("var", "A"), ("var", "B")), ("bin", "AND", ("var", "A"), ("var", "B")),
              ("par", ("var", "C")), ("fn", "ABS", [("var", "C")]), ("arr", "X", [X.num(0)]),
              ("bin", "*", ("var", "C"), ("var", "D")), ("un", "-", ("var", "C")), ("fn", "LEN", [("var", "C$")])]:
        for ctx in COND_CONTEXTS:
            yield {"ctx": ctx, "e": e}
    # 3. literal spellings
    for lit in X.LITERAL_SPELLINGS:
        for ctx in ("assign", "if_noelse", "print", "for_limit"):
            yield {"ctx": ctx, "e": lit}
        yield {"ctx": "assign", "e": ("bin", "+", lit, ("var", "A"))}
        yield {"ctx": "assign", "e": ("bin", "*", ("var", "A"), lit)}
        yield {"ctx": "assign", "e": ("un", "-", lit)}
        yield {"ctx": "assign", "e": ("bin", "-", ("var", "B"), lit)}
        if lit[1] <= 32767:
            yield {"ctx": "assign", "e": ("bin", "AND", lit, ("var", "A"))}
    # 3a. very small and very large literals: the value that reaches BASIC09 must be the value written, to all digits
    big = ("num", 1e6, ["1", "E", "6"])
    for lit in [("num", 0.0000125, [".0000125"]), ("num", 1.5e-6, ["1.5", "E", "-", "6"]), ("num", 2.5e-7, ["2.5", "E", "-", "7"]),
                ("num", 1e-5, ["1", "E", "-", "5"]), ("num", 0.000123456, [".000123456"]), ("num", 3e-9, ["3", "E", "-", "9"]),
                ("num", 0.0001, [".0001"]), ("num", 1.25e-10, ["1.25", "E", "-", "10"]), ("num", 123456789.0, ["123456789"]),
                ("num", 1.5e10, ["1.5", "E", "10"]), ("num", 9.87654321e20, ["9.87654321", "E", "20"])]:
        scale = big if lit[1] < 1 else ("num", 1e-6, ["1", "E", "-", "6"])
        yield {"ctx": "assign", "e": ("bin", "*", ("bin", "*", lit, scale), scale if lit[1] < 1e-8 or lit[1] > 1e12 else X.num(1)), "approx": True}
        yield {"ctx": "assign", "e": ("bin", "*", ("un", "-", lit), scale), "approx": True}
        yield {"ctx": "if_noelse", "e": ("bin", ">", ("bin", "*", lit, scale), ("bin", "+", ("var", "A"), X.num(9))), "approx": True}
        yield {"ctx": "if_else", "e": ("bin", "<", lit, ("bin", "*", lit, X.num(0.9))), "approx": True}
    # 3b. two literals next to each other in a same-precedence chain with a variable: the literal's emitted type must
    # not change the arithmetic (integer division, 16-bit wrap) whatever the neighbour is
    hexes = [l for l in X.LITERAL_SPELLINGS if l[0] == "hex"]
    ints = [l for l in X.LITERAL_SPELLINGS if l[0] == "num" and float(l[1]).is_integer()] + [X.num(3), X.num(300)]
    pool2 = hexes + ([] if tier == "quick" else ints)
    k = 0
    for l1 in pool2:
        for l2 in pool2 + ([X.num(3)] if tier == "quick" else []):
            for op in ARITH4:
                k += 1
                op2 = ARITH4[(k // 3) % 4]
                v = ("var", "ABCD"[k % 4])
                inner = ("bin", op, l1, l2)
                for e in (("bin", op2, inner, v), ("bin", op2, v, ("par", inner)), ("bin", op, l1, ("par", ("bin", op2, l2, v))),
                          ("bin", op2, ("bin", op, v, l1), l2)):
                    yield {"ctx": "assign" if k % 5 else "print", "e": e, "approx": True}
    # 3c. placement of the statement: whatever is hoisted out of e must be computed after the statements directly
    # before it, also when those are skipped or jumped over
    pe = [("fn", "INT", [("bin", "/", ("var", "A"), X.num(2))]), ("fn", "VAL", [("var", "A$")]),
          ("fn", "INSTR", [X.num(1), ("var", "A$"), ("var", "B$")]), ("fn", "LEN", [("fn", "STR$", [("var", "B")])]),
          ("bin", "+", ("var", "A"), ("fn", "INT", [("var", "D")])), ("bin", "*", ("var", "C"), ("var", "D")),
          ("fn", "ABS", [("fn", "INT", [("bin", "-", ("var", "B"), ("var", "C"))])])]
    k = 0
    for e in pe:
        for ctx in NUM_CONTEXTS:
            for place in PLACES:
                k += 1
                if tier == "quick" and k % 2 and ctx not in ("on", "assign"):
                    continue
                yield {"ctx": ctx + "@" + place, "e": e}
    # the assignment target is read only inside the arguments of a LATER run-translated call of its own right-hand side
    fnI = lambda x: ("fn", "INT", [x])
    for e in [("bin", "+", fnI(("var", "B")), fnI(("var", "A"))), ("bin", "-", ("bin", "*", fnI(("bin", "/", ("var", "C"), X.num(2))), X.num(2)), fnI(("bin", "/", ("var", "A"), X.num(2)))),
              ("bin", "+", ("fn", "VAL", [("var", "A$")]), ("fn", "LEN", [("fn", "STR$", [("var", "A")])])),
              ("bin", "+", ("bin", "+", fnI(("var", "B")), fnI(("var", "C"))), fnI(("var", "A"))),
              ("bin", "+", ("fn", "INSTR", [X.num(1), ("var", "A$"), ("var", "B$")]), fnI(("bin", "+", ("var", "A"), X.num(0.5))))]:
        yield {"ctx": "self_assign", "e": e}
        yield {"ctx": "self_assign@late", "e": e}
    for e in [("bin", "+", ("fn", "STR$", [("var", "B")]), ("fn", "LEFT$", [("var", "A$"), fnI(X.num(1))])),
              ("bin", "+", ("fn", "HEX$", [X.num(255)]), ("fn", "STRING$", [X.num(2), ("var", "A$")]))]:
        yield {"ctx": "self_assign_s", "e": e}
    for e in [("fn", "STR$", [("var", "A")]), ("fn", "HEX$", [("fn", "INT", [("var", "B")])]), ("bin", "+", ("var", "A$"), ("fn", "STRING$", [X.num(2), ("var", "B$")])),
              ("fn", "LEFT$", [("var", "A$"), ("fn", "INT", [("var", "C")])])]:
        for ctx in STR_CONTEXTS:
            for place in PLACES:
                yield {"ctx": ctx + "@" + place, "e": e}
    # 3c'. strings longer than BASIC09's 32 bytes, under a larger configured string size: every string the tool declares
    # for the statement (temporaries included) holds what the size option promises
    for st_ in (80, 255, 33):
        n_ = st_ // 2
        for e in [("bin", "+", ("fn", "STRING$", [X.num(n_), ("str", "*")]), ("str", "!")),
                  ("bin", "+", ("bin", "+", ("fn", "STR$", [("var", "A")]), ("fn", "STRING$", [X.num(n_), ("str", "=")])), ("fn", "HEX$", [X.num(255)])),
                  ("fn", "LEFT$", [("bin", "+", ("fn", "STRING$", [X.num(st_ - 2), ("var", "B$")]), ("str", "Z")), X.num(st_ - 1)]),
                  ("fn", "MID$", [("fn", "STRING$", [X.num(st_ - 1), ("str", "AB")]), X.num(2), X.num(st_ - 3)])]:
            for ctx in ("assign_s", "print_then_assign_s", "self_assign_s", "assign_arr_s", "if_s"):
                yield {"ctx": ctx, "e": e, "storage": st_}
    # 3d. string constants without their closing quote (legal at the end of a line), to scalars and to array elements
    for t in ("HELLO", "X", "A B ", "", "TWO  ", "Q:R,S"):
        for ctx in ("assign_s", "assign_arr_s", "assign_s@late", "assign_arr_s@jump"):
            yield {"ctx": ctx, "e": ("ostr", t)}
    for e in [("bin", "+", ("var", "A$"), ("str", "!")), ("fn", "LEFT$", [("var", "B$"), X.num(1)]), ("str", "Z")]:
        yield {"ctx": "assign_arr_s", "e": e}
    # 4. built-in functions on every operand kind, nested two deep
    num_ops = [("var", "A"), X.num(2.5), ("un", "-", ("var", "B")), ("bin", "-", ("var", "A"), ("var", "B")),
               ("par", ("bin", "*", ("var", "C"), ("var", "D"))), ("arr", "X", [X.num(3)]), ("hex", 255, "FF")]
    str_ops = [("var", "A$"), ("str", "HELLO"), ("bin", "+", ("var", "A$"), ("var", "B$")), ("str", "")]
    f1 = ["ABS", "SGN", "FIX", "INT", "SQR"]
    for f in f1:
        for o in num_ops:
            e = ("fn", f, [o])
            yield {"ctx": "assign", "e": e}
            yield {"ctx": "self_assign", "e": e}
            yield {"ctx": "assign", "e": ("bin", "+", e, X.num(1))}
            for g in f1:
                yield {"ctx": "assign", "e": ("fn", g, [e])}
                yield {"ctx": "if_noelse", "e": ("bin", ">", ("fn", g, [e]), X.num(1))}
    for f in ("LEN", "ASC", "VAL"):
        for o in str_ops:
            e = ("fn", f, [o])
            yield {"ctx": "assign", "e": e}
            yield {"ctx": "assign", "e": ("fn", "ABS", [e])}
            yield {"ctx": "assign", "e": ("fn", "INT", [("bin", "/", e, X.num(2))])}
    sfn = []
    for o in str_ops:
        for n1 in (0, 1, 2, 9):
            sfn.append(("fn", "LEFT$", [o, X.num(n1)]))
            sfn.append(("fn", "RIGHT$", [o, X.num(n1)]))
        for m1 in (1, 2, 6):
            for n1 in (0, 1, 3):
                sfn.append(("fn", "MID$", [o, X.num(m1), X.num(n1)]))
    for n1 in (65, 48, 90):
        sfn.append(("fn", "CHR$", [X.num(n1)]))
        sfn.append(("fn", "CHR$", [("bin", "+", X.num(n1), ("var", "B"))]))
    sfn.append(("fn", "STR$", [("var", "A")]))
    sfn.append(("fn", "HEX$", [X.num(255)]))
    sfn.append(("fn", "HEX$", [X.num(9)]))
    for cnt in (0, 1, 3):
        sfn.append(("fn", "STRING$", [X.num(cnt), ("var", "B$")]))
        sfn.append(("fn", "STRING$", [X.num(cnt), ("str", "XY")]))
    for st0 in (1, 2):
        sfn.append(None)
        for o in str_ops[:3]:
            yield {"ctx": "assign", "e": ("fn", "INSTR", [X.num(st0), o, ("var", "B$")])}
            yield {"ctx": "assign", "e": ("fn", "INSTR", [X.num(st0), o, ("str", "L")])}
    for e in sfn:
        if e is None:
            continue
        for ctx in STR_CONTEXTS:
            yield {"ctx": ctx, "e": e}
        yield {"ctx": "assign", "e": ("fn", "LEN", [e])}
        yield {"ctx": "assign_s", "e": ("bin", "+", e, ("var", "C$"))}
        yield {"ctx": "assign_s", "e": ("fn", "LEFT$", [e, X.num(1)])}
        yield {"ctx": "assign_s", "e": ("fn", "MID$", [("bin", "+", ("str", "Q"), e), X.num(1), X.num(2)])}
    # string concatenation shapes and comparisons
    for k in (1, 2, 3):
        for s in X.shapes(k, ["+"], []):
            e = X.fill(s, [("var", "A$"), ("str", "-"), ("var", "B$"), ("var", "C$")])
            for ctx in STR_CONTEXTS:
                yield {"ctx": ctx, "e": e}
    # 4b. transcendental functions at non-trivial arguments, compared with a relative tolerance of 1e-6
    for f in ("SIN", "COS", "TAN", "ATN", "EXP", "LOG", "SQR"):
        for arg in (("var", "A"), ("bin", "/", ("var", "B"), X.num(4)), ("bin", "+", ("fn", "ABS", [("var", "C")]), X.num(0.5)), X.num(2)):
            e = ("fn", f, [arg])
            yield {"ctx": "assign", "e": e, "approx": True}
            yield {"ctx": "assign", "e": ("bin", "*", e, X.num(3)), "approx": True}
            yield {"ctx": "if_noelse", "e": ("bin", ">", e, X.num(0.5)), "approx": True}
            for g in ("SIN", "EXP", "SQR"):
                yield {"ctx": "assign", "e": ("fn", g, [("fn", "ABS", [e])]), "approx": True}
    # 4c. long flat chains (8-20 operators without parentheses): precedence and associativity over many terms
    rng2 = random.Random(424243 * (seed + 1))
    leaves = NUM_LEAVES + [X.num(2), X.num(3), X.num(0.5), ("hex", 16, "10")]
    prec = {"OR": 1, "AND": 2, "=": 3, "<": 3, ">": 3, "<>": 3, "+": 4, "-": 4, "*": 5, "/": 5}

    def tree_of(terms, ops):
        # the tree Color BASIC builds from the flat text: precedence climbing over the token list
        k = len(ops)

        def climb(pos, minp):
            left = terms[pos]
            while pos < k and prec[ops[pos]] >= minp:
                op = ops[pos]
                right, npos = climb(pos + 1, prec[op] + 1)
                left = ("bin", op, left, right)
                pos = npos
            return left, pos

        return climb(0, 0)[0]

    # a function whose result variable is its own bare operand (the runtime procedure then reads and writes one storage):
    # D=INT(D), Y(1)=INT(Y(1)) and friends, with operands of either sign, whole and fractional
    for e_ in (("fn", "INT", [("var", "D")]), ("fn", "INT", [("un", "-", ("var", "D"))]), ("fn", "INSTR", [("var", "D"), ("str", "ABCABC"), ("str", "BC")]),
               ("fn", "ABS", [("var", "D")]), ("fn", "SGN", [("var", "D")]), ("fn", "FIX", [("var", "D")]), ("fn", "LEN", [("fn", "STR$", [("var", "D")])])):
        yield {"ctx": "self_assign_d", "e": e_}
        yield {"ctx": "self_assign_x", "e": e_}
    # VAL of texts that are not numbers (0 in Color BASIC), stored over a variable that holds something else
    for arg in (("var", "A$"), ("var", "B$"), ("str", "HELLO"), ("str", ""), ("str", "1X"), ("str", "X1"), ("str", " 5"), ("str", "-"), ("str", "."),
                ("bin", "+", ("var", "A$"), ("str", "Z")), ("str", "&H1F"), ("str", "&HFF"), ("str", "&H7FFF"), ("bin", "+", ("str", "&H"), ("var", "A$"))):
        v_ = ("fn", "VAL", [arg])
        for ctx in ("self_assign", "assign", "if_noelse", "sub_read"):
            yield {"ctx": ctx, "e": v_}
        yield {"ctx": "assign", "e": ("bin", "+", ("fn", "VAL", [("str", "41")]), v_)}
        yield {"ctx": "assign", "e": ("bin", "+", ("bin", "*", v_, X.num(2)), ("fn", "VAL", [("str", "7")]))}
    # numeric arguments of the string functions in every operand shape the parser builds a different node for: a sign or
    # NOT in front of a variable or a parenthesis, a sum that begins with a sign (valuations give D = 2, 5, 1, -2, -1.5 ...:
    # the cases that are errors in Color BASIC drop out)
    shapes_n = [("un", "-", ("var", "D")), ("un", "NOT", ("var", "D")), ("un", "-", ("par", ("bin", "-", ("var", "D"), X.num(1)))),
                ("bin", "+", ("un", "-", ("var", "D")), X.num(1)), ("un", "+", ("var", "D")), ("par", ("un", "-", ("var", "D"))),
                ("un", "-", ("un", "-", ("var", "D"))), ("bin", "-", X.num(3), ("var", "D"))]
    subj = ("bin", "+", ("str", "ABCABC"), ("var", "A$"))
    for sh in shapes_n:
        yield {"ctx": "assign", "e": ("fn", "INSTR", [sh, subj, ("str", "BC")])}
        yield {"ctx": "if_noelse", "e": ("bin", ">", ("fn", "INSTR", [sh, ("str", "XABCABC"), ("var", "B$")]), X.num(2))}
        yield {"ctx": "assign_s", "e": ("fn", "MID$", [subj, sh, X.num(2)])}
        yield {"ctx": "assign_s", "e": ("fn", "MID$", [subj, X.num(2), sh])}
        yield {"ctx": "assign_s", "e": ("fn", "LEFT$", [subj, sh])}
        yield {"ctx": "assign_s", "e": ("fn", "RIGHT$", [subj, sh])}
        yield {"ctx": "assign_s", "e": ("fn", "STRING$", [sh, ("str", "*")])}
        yield {"ctx": "assign_s", "e": ("fn", "CHR$", [("bin", "+", X.num(70), sh)])}
    # many run-translated calls in one expression (each needs a temporary of its own: two-digit numbering), with values
    # that all differ
    for nterms in ((10, 11, 12, 23) if tier == "quick" else range(9, 40)):
        for fname in ("INT", "VAL", "LEN(STR$)"):
            def call(j):
                arg = ("bin", "+", ("var", "A"), X.num(j)) if j % 3 else ("bin", "*", X.num(j + 2), ("num", 1.5, ["1.5"]))
                if fname == "INT":
                    return ("fn", "INT", [arg])
                if fname == "VAL":
                    return ("fn", "VAL", [("str", str(7 * j + 3))])
                return ("fn", "LEN", [("fn", "STR$", [X.num(10 ** (j % 7) + j)])])
            terms = [call(j) for j in range(nterms)]
            ops = ["+" if j % 2 else "-" for j in range(nterms - 1)]
            yield {"ctx": "assign", "e": tree_of(terms, ops)}
            yield {"ctx": "if_noelse", "e": ("bin", ">", tree_of(terms, ops), X.num(0))}
    for i in range(120 if tier == "quick" else 6000):
        if i % 3:
            k = rng2.randint(8, 20)
            ops = [rng2.choice(["+", "-", "*", "/"]) for _ in range(k)]
            terms = [rng2.choice(leaves) for _ in range(k + 1)]
            yield {"ctx": "assign" if i % 4 else "for_limit", "e": tree_of(terms, ops), "approx": True}
        else:
            # IF condition: comparisons of arithmetic chains joined by AND / OR, no parentheses at all
            ops, terms = [], [rng2.choice(leaves)]
            for c in range(rng2.randint(2, 5)):
                if c:
                    ops.append(rng2.choice(["AND", "OR"]))
                    terms.append(rng2.choice(leaves))
                for side in range(2):
                    for _ in range(rng2.randint(0, 3)):
                        ops.append(rng2.choice(["+", "-", "*", "/"]))
                        terms.append(rng2.choice(leaves))
                    if side == 0:
                        ops.append(rng2.choice(["=", "<", ">", "<>"]))
                        terms.append(rng2.choice(leaves))
            yield {"ctx": "if_noelse" if i % 2 else "if_else", "e": tree_of(terms, ops), "approx": True}
    # 5. seeded random trees beyond the bound
    nrand = 1500 if tier == "quick" else 150000
    rng = random.Random(99991 * (seed + 1))
    g = X.ExprGen(rng, num_arrays=[("X", 1)])
    for i in range(nrand):
        x = rng.random()
        place = ("@" + rng.choice(PLACES)) if rng.random() < 0.2 else ""
        if x < 0.55:
            yield {"ctx": rng.choice(NUM_CONTEXTS) + place, "e": g.num(rng.choice([2, 3, 3, 4]))}
        elif x < 0.8:
            yield {"ctx": rng.choice(COND_CONTEXTS) + place, "e": g.cond(rng.choice([1, 2, 3]))}
        else:
            yield {"ctx": rng.choice(STR_CONTEXTS) + place, "e": g.str(rng.choice([1, 2, 3]))}
