"""C02 - control flow of the translated program follows the source program.
Trace monitor: generated structured-but-jumpy terminating programs log every effect with PRINT; the PRINT
stream and termination of the reference BASIC09 interpreter running convert() output must equal those of the
Color BASIC reference, for all four combinations of filter_unused_linenum x initialize_vars."""
import random

from .. import harness
from ..cbref.ast import render
from ..gen import exprs as X

PROPERTY = "C02"
LEVEL = "exploration"
USES_REFERENCE_MODELS = True
RULE = ("case = generated program (multi-statement lines; IF in its three forms with line-number and statement arms, nested in "
        "THEN and ELSE, ELSE IF chains of length 1-3 with and without final ELSE; FOR/NEXT with positive, negative, fractional "
        "STEP, bare NEXT, NEXT I, NEXT J,I, nested to depth 3, on one line and across lines; forward GOTO and counter-guarded "
        "backward GOTO; GOSUB/RETURN nested; ON..GOTO/GOSUB with selector 0..n+1; END/STOP in the middle) x initial valuation x "
        "4 option sets; distinct = (program structure key, valuation); non-trivial = source terminated without error and traces "
        "were compared")
ASSUMPTIONS = ["programs have unique ascending line numbers and lexically nested loops; no jump into a loop body from outside",
               "printed numbers are compared by value (the leading blank of negative numbers is C03's known finding)"]
REQUIRED_COUNTERS = ["traces_compared"]

n = X.num
VARS = ["A", "B", "C"]


class Target(object):
    """Forward line reference resolved when the program is numbered."""

    def __init__(self):
        self.line = None


class FlowGen(object):
    def __init__(self, rng, zero_trip=False):
        self.r = rng
        self.items = []        # list of ('line', [stmts]) | ('label', Target)
        self.subs = []         # subroutine bodies: (Target, items)
        self.mid = 0
        self.kid = 0
        self.loop_vars = ["I", "J", "L"]
        self.depth_for = 0
        self.zero_trip = zero_trip
        self.has_elif_noelse = False

    def mark(self, var=None):
        self.mid += 1
        v = ("var", var or self.r.choice(VARS))
        return ("print", [("e", ("str", "m%d" % self.mid)), ("sep", ";"), ("e", v)], None)

    def cond(self, calls=False, prefer=None):
        r = self.r
        a = ("var", prefer or r.choice(VARS))
        c = ("bin", r.choice(["=", "<>", "<", ">", "<=", ">="]), a, n(r.randint(0, 4)))
        x = r.random()
        if calls and r.random() < (0.8 if prefer else 0.3):
            # two run-translated calls with different operands in one condition: each needs its own temporary (only in
            # a plain IF: IF..ELSE loses such calls altogether, the known mechanism of C01/C05/C08 pinned by test_int_lvalue)
            b = ("var", r.choice([v for v in VARS if v != a[1]]))
            # (the operand is often negative with a fraction: INT rounds down there, -1.5 gives -2)
            half = lambda e: ("fn", "INT", [("bin", "/", ("par", ("bin", "-", e, n(3))), n(2))])      # noqa: E731
            return ("bin", r.choice(["=", "<>", "<", ">"]), half(a), ("bin", "+", half(b), n(r.randint(0, 1))))
        if x > 0.93:
            # the branch is steered by FIX of a value with a fraction of .5 and more, of either sign (FIX cuts the
            # fraction off: FIX(2.7) = 2, FIX(-1.5) = -1)
            f_ = r.choice([("num", 1.5, ["1.5"]), ("num", 0.9, [".9"]), ("num", 2.7, ["2.7"])])
            return ("bin", r.choice(["=", "<>", "<", ">"]), ("fn", "FIX", [("bin", "*", ("par", ("bin", "-", a, n(r.randint(0, 3)))), f_)]), n(r.randint(-2, 4)))
        if x < 0.15:
            c2 = ("bin", r.choice(["=", "<", ">"]), ("var", r.choice(VARS)), n(r.randint(0, 4)))
            return ("bin", r.choice(["AND", "OR"]), c, c2)
        if x < 0.22:
            return ("un", "NOT", ("par", c))
        if x < 0.30:
            if r.random() < 0.4:
                # two bare numbers joined by AND / OR: a bitwise operation whose result is the condition (1 AND 2 is false)
                b2 = ("var", r.choice([v for v in VARS if v != a[1]]))
                return ("bin", r.choice(["AND", "AND", "OR"]), a, b2 if r.random() < 0.7 else ("bin", "+", b2, n(1)))
            return a                      # bare numeric condition
        if x < 0.35:
            return ("par", c)
        return c

    def bump(self):
        v = self.r.choice(VARS)
        # the increment is sometimes spelled with a decimal point (1.5, .5, 2.): the last token of an arm then stands
        # directly before ELSE, where 'E' must not be taken for an exponent
        inc = n(self.r.randint(1, 2)) if self.r.random() < 0.6 else self.r.choice([("num", 1.5, ["1.5"]), ("num", 0.5, [".5"]), ("num", 2.0, ["2."])])
        return ("let", ("var", v), ("bin", "+", ("var", v), inc), False)

    def dotted_mark(self):
        self.mid += 1
        lit = self.r.choice([("num", 1.5, ["1.5"]), ("num", 0.5, [".5"]), ("num", 2.0, ["2."]), ("num", 10.25, ["10.25"])])
        return ("print", [("e", ("str", "m%d" % self.mid)), ("sep", ";"), ("e", lit)], None)

    def simple(self):
        x = self.r.random()
        if x < 0.12:
            return [self.dotted_mark()]
        return [self.mark()] if x < 0.7 else [self.mark(), self.bump()]

    def arm_stmts(self, depth, need_else=False):
        r = self.r
        if r.random() < 0.22:
            # the arm is exactly one GOSUB (the subroutine marks and returns) - alone, or followed by more statements
            t = Target()
            body = []
            self.subs.append((t, body))
            saved = self.items
            self.items = body
            self.line([self.mark(), ("return",)])
            self.items = saved
            return ("stmts", [("gosub", t)] if r.random() < 0.6 else [("gosub", t), self.mark()])
        st = self.simple()
        if depth < 2 and r.random() < 0.3:
            # (when the arm has just changed a variable, the nested condition reads that variable - through a
            # run-translated call if it may: the call belongs behind the change, inside the arm)
            changed = st[-1][1][1] if st[-1][0] == "let" else None
            st.append(self.if_stmt(depth + 1, need_else, prefer=changed))
        return ("stmts", st)

    def if_stmt(self, depth=0, need_else=False, prefer=None):
        r = self.r
        x = r.random()
        has_else = need_else or x < 0.55
        nel = r.choice([0, 0, 1, 2, 3]) if x > 0.3 else 0
        then = self.arm_stmts(depth, need_else=(has_else or nel > 0))
        elifs = [(self.cond(), self.arm_stmts(depth, True)) for _ in range(nel)]
        els = self.arm_stmts(depth, need_else) if (has_else or (nel and r.random() < 0.5) or need_else) else None
        if nel and els is None:
            self.has_elif_noelse = True
        return ("if", self.cond(calls=(els is None and not elifs), prefer=prefer), then, elifs, els)

    def line(self, stmts):
        self.items.append(("line", stmts))

    def segment(self, depth=0):
        r = self.r
        x = r.random()
        if x < 0.18:
            st = self.simple()
            if r.random() < 0.4:
                st += self.simple()
            self.line(st)
        elif x < 0.012 + 0.18 and not getattr(self, "has_data", False):
            # branches steered by numbers that READ delivers through the empty-item filter: long spellings, large values
            self.has_data = True
            self.approx = True
            big = r.choice([("num", 2e12, ["2000000000000"]), ("num", 12345678.9012, ["12345678.9012"]), ("num", 1.5e15, ["1500000000000000"])])
            self.line([("read", [("var", "D"), ("var", "E")]),
                       ("if", ("bin", ">", ("var", "E"), ("num", big[1] / 2, ["%r" % (big[1] / 2)])), ("stmts", [self.mark()]), [], ("stmts", [self.mark()]))])
            self.line([("if", ("bin", "=", ("var", "D"), n(0)), ("stmts", [self.mark()]), [], None)])
            self.data_line = [("data", [("u", ""), ("n", big[1], list(big[2]))])]
        elif x < 0.03 + 0.18:
            # an ELSE IF chain whose last arm changes a variable and then tests it, through a run-translated call, in a
            # plain IF of its own: that call belongs inside the arm, behind the change
            v = r.choice(VARS)
            inc = n(r.randint(1, 3))
            nested = ("if", ("bin", r.choice(["=", "<>", ">"]), ("fn", "INT", [("bin", "/", ("var", v), n(2))]), n(r.randint(0, 3))),
                      ("stmts", [self.mark()]), [], None)
            body = ("stmts", [("let", ("var", v), ("bin", "+", ("var", v), inc), False), nested])
            arms = [(self.cond(), ("stmts", [self.mark()])) for _ in range(r.randint(1, 2))]
            # (always with a final ELSE: a chain without one is the known endless-LOOP finding, and its counterfactual - an
            # added ELSE - would bind to the nested IF here)
            self.line([("if", self.cond(), ("stmts", [self.mark()]), arms, body)])
        elif x < 0.36:
            st = [self.mark()] if r.random() < 0.5 else []
            st.append(self.if_stmt())
            self.line(st)
        elif x < 0.46:
            # IF .. THEN <line> [ELSE <line>] skipping over segments
            t1, t2 = Target(), Target()
            form = r.random()
            if form < 0.5:
                self.line([("if", self.cond(), ("line", t1), [], None)])
                self.segment(depth + 1)
                self.items.append(("label", t1))
                self.line([self.mark()])
            else:
                self.line([("if", self.cond(), ("line", t1), [], ("line", t2))])
                self.line([self.mark()])       # unreachable unless both skip: keeps numbering interesting
                self.items.append(("label", t1))
                self.line([self.mark(), ("goto", t2)] if r.random() < 0.5 else [self.mark()])
                self.items.append(("label", t2))
                self.line([self.mark()])
        elif x < 0.66 and self.depth_for < 3:
            self.for_loop(depth)
        elif x < 0.74:
            t = Target()
            body = []
            self.subs.append((t, body))
            st = [("gosub", t)]
            if r.random() < 0.5:
                st.insert(0, self.mark())
            if r.random() < 0.5:
                st.append(self.mark())
            self.line(st)
            # the subroutine
            saved = self.items
            self.items = body
            self.line(self.simple())
            if r.random() < 0.35 and depth < 2:
                self.segment(depth + 2)
            if r.random() < 0.3:
                self.line([("if", self.cond(), ("stmts", [self.mark(), ("return",)]), [], None)])
            self.line([self.mark(), ("return",)])
            self.items = saved
        elif x < 0.84:
            k = r.randint(1, 5)
            ts = [Target() for _ in range(k)]
            end = Target()
            gosub = r.random() < 0.4
            sv = r.choice(VARS)
            sel = ("var", sv)
            pre = []
            y = r.random()
            if y < 0.35:
                # selector through a run-translated function, and the statement directly before it changes its operand
                sel = ("fn", "INT", [("bin", "/", ("bin", "*", ("var", sv), n(2)), n(2))])
                pre = [("let", ("var", sv), ("bin", "+", ("var", sv), n(1)), False)]
            elif y < 0.5:
                sel = ("bin", "+", ("fn", "INT", [("var", sv)]), n(0))
            elif y > 0.9:
                # FIX of a value with a fraction of .5 and more picks the target below, not the one above
                sel = ("fn", "FIX", [("bin", "*", ("var", sv), r.choice([("num", 0.9, [".9"]), ("num", 1.5, ["1.5"]), ("num", 0.75, [".75"])]))])
            elif y < 0.62:
                # two calls in the selector, the second one worth 0: sharing a temporary would select nothing
                sel = ("bin", "+", ("fn", "INT", [("var", sv)]), ("fn", "INT", [("num", 0.5, [".5"])]))
            if gosub:
                for t in ts:
                    body = []
                    self.subs.append((t, body))
                    saved = self.items
                    self.items = body
                    self.line([self.mark(), ("return",)])
                    self.items = saved
                self.line(pre + [("on", sel, "GOSUB", ts), self.mark()])
            else:
                self.line(pre + [("on", sel, "GOTO", ts), self.mark(), ("goto", end)])
                for t in ts:
                    self.items.append(("label", t))
                    self.line([self.mark(), ("goto", end)])
                self.items.append(("label", end))
                self.line([self.mark()])
        elif x < 0.875:
            # ELSE-IF chain whose arms are a mix of bare line numbers and statements, always with a final ELSE
            k = r.randint(1, 3)
            end = Target()
            used = []

            def arm():
                if r.random() < 0.6:
                    t = Target()
                    used.append(t)
                    return ("line", t)
                return ("stmts", [self.mark(), ("goto", end)] if r.random() < 0.5 else [self.mark()])
            then = arm()
            elifs = [(self.cond(), arm()) for _ in range(k)]
            els = arm()
            st = [self.mark()] if r.random() < 0.3 else []
            st.append(("if", self.cond(), then, elifs, els))
            self.line(st)
            self.line([self.mark(), ("goto", end)])
            for t in used:
                self.items.append(("label", t))
                self.line([self.mark(), ("goto", end)])
            self.items.append(("label", end))
            self.line([self.mark()])
        elif x < 0.93:
            # counter-guarded backward loop
            self.kid += 1
            kv = "K%d" % self.kid
            top = Target()
            self.items.append(("label", top))
            self.line([("let", ("var", kv), ("bin", "+", ("var", kv), n(1)), False), self.mark(kv)])
            if r.random() < 0.5:
                self.segment(depth + 1)
            self.line([("if", ("bin", "<", ("var", kv), n(r.randint(2, 3))), ("line", top), [], None)])
        else:
            self.line([("if", ("bin", "=", ("var", r.choice(VARS)), n(r.randint(0, 6))),
                        ("stmts", [self.mark(), (r.choice(["end", "stop"]),)]), [], None)])

    def tiny_loop(self):
        """Bounds and step far below 1: FOR T=0 TO 9.5E-7 STEP 2.5E-7 runs four times (a step that is emitted as 0 never
        ends), and IF D>0 sees a positive number.  The marks print other variables: how such numbers PRINT is C01's."""
        r = self.r
        self.approx = True              # such numbers are outside the reference's exact domain (multiples of 1/64)
        v = self.loop_vars[self.depth_for]
        k = r.choice([1, 2.5, 5])
        e = r.choice([5, 7, 9])
        step = ("num", k * 10.0 ** -e, ["%sE-%d" % (("%g" % k), e)])
        lim = ("num", 3.8 * k * 10.0 ** -e, ["%gE-%d" % (3.8 * k, e)])
        self.line([("let", ("var", "D"), step, False), ("for", v, n(0), lim, ("var", "D") if r.random() < 0.5 else step), self.mark(), ("next", [v])])
        self.line([("if", ("bin", ">", ("var", "D"), n(0)), ("stmts", [self.mark()]), [], ("stmts", [self.mark()]))])

    def for_loop(self, depth):
        r = self.r
        if self.depth_for == 0 and r.random() < 0.06:
            return self.tiny_loop()
        v = self.loop_vars[self.depth_for]
        self.depth_for += 1
        step = r.choice([None, None, n(1), n(2), ("un", "-", n(1)), n(0.5), ("un", "-", n(0.5))])
        neg = step is not None and step[0] == "un"
        lo, hi = r.randint(0, 2), r.randint(2, 4)
        if self.zero_trip and r.random() < 0.5:
            lo, hi = hi + 1, lo
        a, b = (n(hi), n(lo)) if neg else (n(lo), n(hi))
        if r.random() < 0.3:
            b = ("bin", "+", ("var", r.choice(VARS)), n(0)) if not neg else b
        if not neg and b[0] == "num" and r.random() < 0.12:
            # both bounds through a run-translated call (INT(lo.5) = lo): two temporaries in one FOR statement
            a = ("fn", "INT", [("num", a[1] + 0.5, ["%d.5" % a[1]])])
            b = ("fn", "INT", [("num", b[1] + 0.5, ["%d.5" % b[1]])])
        elif not neg and b[0] == "num" and r.random() < 0.1:
            # the limit through FIX of hi.7: one pass fewer than rounding would give
            b = ("fn", "FIX", [("num", b[1] + 0.7, ["%d.7" % b[1]])])
        y = r.random()
        if y < 0.08:
            # the control variable is read before its FOR has run, by a subroutine that stands after the loop in the text
            t = Target()
            body = []
            self.subs.append((t, body))
            saved = self.items
            self.items = body
            self.line([self.mark(v), ("return",)])
            self.items = saved
            self.line([("gosub", t)])
        elif y < 0.12 and a[0] == "num" and a[1] == 0 and self.depth_for == 1:
            a = ("var", v)             # FOR I=I TO n: the start value is the variable's own (zero) value
        head = ("for", v, a, b, step)
        form = r.random()
        self.for_changes_limit = False
        if b[0] == "bin" and r.random() < 0.5:
            # the limit is a variable that the body changes: bounds are evaluated once in both languages
            self.for_changes_limit = b[2][1]
        if form < 0.35:
            # whole loop on one line
            body = [self.mark(v)]
            if r.random() < 0.3 and self.depth_for < 3:
                v2 = self.loop_vars[self.depth_for]
                inner = [("for", v2, n(1), n(2), None), self.mark(v2)]
                if r.random() < 0.5:
                    self.line([head] + body + inner + [("next", [v2, v])])
                else:
                    self.line([head] + body + inner + [("next", []), ("next", [v] if r.random() < 0.5 else [])])
            else:
                self.line([head] + body + [("next", [v] if r.random() < 0.5 else [])])
        else:
            self.line([head, self.mark(v)] if r.random() < 0.6 else [head])
            if self.for_changes_limit:
                lv = self.for_changes_limit
                self.line([("let", ("var", lv), ("bin", "+", ("var", lv), n(1)), False), self.mark(lv)])
            for _ in range(r.randint(1, 2)):
                self.segment(depth + 1)
            self.line([self.mark(v), ("next", [v] if r.random() < 0.6 else [])] if r.random() < 0.5 else [("next", [v] if r.random() < 0.6 else [])])
        self.depth_for -= 1

    def program(self, nseg, valuation):
        for _ in range(nseg):
            self.segment()
        self.line([self.mark(), ("end",)])
        for t, body in self.subs:
            self.items.append(("label", t))
            self.items.extend(body)
        if getattr(self, "data_line", None):
            self.line(self.data_line)
        # number the lines
        step = self.r.choice([1, 5, 10])
        ln = self.r.choice([1, 10, 100])
        init = [("let", ("var", k), X.num(abs(v)) if v >= 0 else ("un", "-", X.num(abs(v))), False) for k, v in valuation.items()]
        if self.items and self.items[0][0] == "label" and self.r.random() < 0.5:
            # the program starts with a jump target: number it 0 (the smallest legal line number) and guard the
            # initialisation so that coming back to line 0 does not repeat it
            ln = 0
            k = 0
            while self.items[k][0] == "label":
                k += 1
            guard = ("if", ("bin", "=", ("var", "Z8"), n(0)), ("stmts", init + [("let", ("var", "Z8"), n(1), False)]), [], None)
            self.items.insert(k, ("line", [guard]))
            init = None
        pending = []
        lines = []
        for it in self.items:
            if it[0] == "label":
                pending.append(it[1])
            else:
                for t in pending:
                    t.line = ln
                pending = []
                lines.append((ln, it[1]))
                ln += step
        if pending:
            for t in pending:
                t.line = ln
            lines.append((ln, [("rem", " END", "REM")]))
        if init is None:
            return resolve(lines)
        prog = [(0 if self.r.random() < 0.1 and lines[0][0] > 0 else max(0, lines[0][0] - 1), init)] + lines
        if prog[0][0] == lines[0][0]:
            prog = [(lines[0][0], init + lines[0][1])] + lines[1:]
        return resolve(prog)


def resolve(x):
    if isinstance(x, Target):
        return x.line
    if isinstance(x, tuple):
        return tuple(resolve(y) for y in x)
    if isinstance(x, list):
        return [resolve(y) for y in x]
    return x


def add_else(prog):
    """Counterfactual: give every ELSE IF chain without a final ELSE an explicit no-op ELSE arm."""
    def fix(s):
        if s[0] == "if":
            def br(b):
                if b is None or b[0] == "line":
                    return b
                return ("stmts", [fix(x) for x in b[1]])
            els = br(s[4])
            if s[3] and els is None:
                els = ("stmts", [("let", ("var", "Z9"), n(0), False)])
            return ("if", s[1], br(s[2]), [(c, br(b)) for c, b in s[3]], els)
        return s
    return [(ln, [fix(s) for s in st]) for ln, st in prog]


OPTS = [{}, {"filter_unused_linenum": True}, {"initialize_vars": True}, {"filter_unused_linenum": True, "initialize_vars": True}]


def stream(events):
    out = []
    for ev in events:
        if ev[0] == "print":
            for t in ev[1:]:
                if t[0] == "s":
                    txt = t[1]
                    try:
                        out.append(float(txt.strip()))
                    except ValueError:
                        if txt != "":
                            out.append(txt)
                else:
                    out.append(t[0])
        elif ev[0] in ("end", "stop"):
            out.append(ev[0].upper())
    return out


def compare(prog, optsets, hyp_for=False, approx=False):
    text = render(prog)
    from ..cbref import interp as cbi

    cbi.APPROX[0] = bool(approx)
    try:
        cb = harness.run_cb(prog, budget=3000)
    finally:
        cbi.APPROX[0] = False
    res = {"text": text, "cb": cb["status"], "problems": [], "zero_trip": cb.get("zero_trip")}
    if cb["status"] != "ok":
        return res
    want = stream(cb["events"])
    res["steps"] = cb["steps"]
    for o in optsets:
        conv = harness.convert(text, **o)
        if not conv["ok"]:
            res["problems"].append(("refused" if conv["documented"] else "internal", o, conv.get("exc")))
            continue
        b = harness.run_b09(conv["out"], budget=20 * cb["steps"] + 1000, hyp_for_body_once=hyp_for)
        if b["status"] == "budget":
            res["problems"].append(("does-not-stop", o, None))
            continue
        if b["status"] != "ok":
            res["problems"].append(("b09-" + b["status"], o, b["error"]))
            continue
        un = sorted(set(u for u in b.get("uninit", ()) if not u.startswith("tmp_")))
        if un and o.get("initialize_vars"):
            # with pre-initialisation requested nothing the program reads may be unassigned: BASIC09 variables start
            # with whatever the memory holds, so a branch steered by such a read goes anywhere
            res["problems"].append(("uninitialised-read", o, {"variables": un[:6]}))
            continue
        got = stream(b["events"])
        if got != want:
            i = next((k for k, (x, y) in enumerate(zip(want, got)) if x != y), min(len(want), len(got)))
            res["problems"].append(("trace-differs", o, {"at": i, "want": want[max(0, i - 3):i + 4], "got": got[max(0, i - 3):i + 4]}))
        res["emitted"] = conv["out"]
    return res


def run_case(case):
    rng = random.Random(case["seed"])
    g = FlowGen(rng, zero_trip=case.get("zero_trip", False))
    val = case["valuation"]
    if case.get("fixed"):
        prog = [(ln, list(st)) for ln, st in case["fixed"]]
        g.has_elif_noelse = True
    else:
        prog = g.program(case["nseg"], val)
    obs = {"counters": {}, "viols": [], "sets": {}}
    from ..gen import progtools

    obs["key"] = progtools.prog_key(prog) + "|" + str(sorted(val.items()))
    r = compare(prog, OPTS, approx=getattr(g, "approx", False))
    if r["cb"] != "ok":
        obs["nontrivial"] = False
        obs["counters"]["source_" + r["cb"]] = 1
        return obs
    obs["counters"]["traces_compared"] = len(OPTS)
    obs["counters"]["source_steps"] = r["steps"]
    probs = [p for p in r["problems"] if p[0] not in ("refused", "internal")]
    obs["counters"]["refused_or_internal"] = len(r["problems"]) - len(probs)
    ref = [p for p in r["problems"] if p[0] in ("refused", "internal")]
    if ref:
        # the program is in the fragment (the Color BASIC reference ran it to its end): there must BE an emitted program
        obs["viols"].append({"sig": "C02/valid-program-%s/%s" % (ref[0][0], ref[0][2]),
                             "detail": {"source": r["text"][:1500], "options": ref[0][1], "exception": ref[0][2], "valuation": val}})
        return obs
    if probs:
        kind, o, info = probs[0]
        detail = {"source": r["text"][:1500], "kind": kind, "options": o, "info": info, "valuation": val,
                  "emitted": (r.get("emitted") or "")[-900:]}
        attempts = []
        if g.has_elif_noelse:
            attempts.append(("C02/loop/ELSEIF-chain-without-ELSE", add_else(prog), False))
        if r["zero_trip"]:
            # hypothesis: with BASIC09's FOR emulated as bottom-tested (body at least once) the traces agree
            attempts.append(("C02/for/zero-trip", prog, True))
        if g.has_elif_noelse and r["zero_trip"]:
            attempts.append(("C02/for/zero-trip", add_else(prog), True))
        for sig, p2, hyp in attempts:
            r2 = compare(p2, [o], hyp_for=hyp, approx=getattr(g, "approx", False))
            if r2["cb"] == "ok" and not [p for p in r2["problems"] if p[0] not in ("refused", "internal")]:
                obs["viols"].append({"sig": sig, "detail": detail})
                return obs
        opt_dep = "" if len(probs) == len(OPTS) else "/option-dependent"
        obs["viols"].append({"sig": "C02/%s%s" % (kind, opt_dep), "detail": detail})
    if case.get("sample"):
        obs["sample"] = {"source": r["text"][:500], "valuation": val, "source_steps": r["steps"]}
    return obs


VALUATIONS = [{"A": 0, "B": 1, "C": 2}, {"A": 1, "B": 2, "C": 3}, {"A": 2, "B": 0, "C": 1}, {"A": 3, "B": 3, "C": 0},
              {"A": 4, "B": 1, "C": 4}, {"A": -1, "B": 2, "C": 5}]


def cases(tier, seed):
    N = 1200 if tier == "quick" else 80000
    for i in range(N):
        yield {"seed": seed * 9973 + i // 2, "nseg": 2 + (i // 2) % 5, "valuation": VALUATIONS[i % len(VALUATIONS)],
               "zero_trip": i % 25 == 0, "sample": i % 400 == 0}
    # ON .. GOSUB / GOTO with as many targets as a Color BASIC line holds (the emitted statement is longer than 255
    # characters), and the chosen subroutine changes the selector: the selector is looked at once
    def pr(t):
        return ("print", [("e", ("str", t))], None)

    for ntg in (46, 56, 60):
        for first, newk in ((1, 50), (2, 47), (ntg, 1), (45, 46)):
            for how in ("GOSUB", "GOTO"):
                tg = [100 + k for k in range(ntg)]
                prog = [(10, [("let", ("var", "K"), n(first), False)]), (20, [("on", ("var", "K"), how, tg), pr("BACK")]), (30, [pr("DONE"), ("end",)])]
                for k, t in enumerate(tg):
                    body = [pr("S%d" % (k + 1))]
                    if k + 1 == first:
                        body.append(("let", ("var", "K"), n(newk), False))
                    body.append(("return",) if how == "GOSUB" else ("goto", 30))
                    prog.append((t, body))
                yield {"seed": ntg * 100 + first, "nseg": 0, "valuation": VALUATIONS[0], "fixed": prog}
