"""C17 - compression is transparent: any valid encoding decodes to the original image.
Nondeterministic reference encoders (run splitting, literal vs repeat, escape use chosen by the seed and by
adversarial presets) feed the real decoders; every pixel is compared with the reference rendering."""
import random

from ..img import decoders as D
from ..img import model as M
from ..img import observe, pnm
from .c16 import compare_rgb, check_vef

PROPERTY = "C17"
LEVEL = "exploration"
RULE = ("case = image (pixel kind chosen to make runs: flat, striped, runs, vertical repeats, random) x compressed layout "
        "(MGE RLE - through mgetoppm and through the packaged viewer with Tk stubbed -, RAT escape coding, CM3 coded lines over 1/2 pages, squashed VEF types 0/1/3) x encoder preset (maximal "
        "runs, runs of length 1, runs at 127/128/129/254/255, random splitting, escape byte occurring as data, copy-left at "
        "column 0); also unsquash() under a direct contract; distinct = (layout, preset, pixel kind, seed); non-trivial = all")
ASSUMPTIONS = ["file layouts of DESIGN.md Appendix C; reference encoders self-checked by reference expansion before use"]
REQUIRED_COUNTERS = ["pixels_compared"]

PRESETS = ["maximal", "ones", "edge", "random"]


def unsquash_ref(rec):
    """Reference expansion of one squashed VEF record body (without the length byte)."""
    out = bytearray()
    i = 0
    while i < len(rec):
        h = rec[i]
        i += 1
        if h > 128:
            out += bytes([rec[i]]) * (h - 128)
            i += 1
        else:
            out += rec[i:i + h]
            i += h
    return bytes(out)


def build(case):
    rng = random.Random(case["seed"])
    fmt, kind, preset = case["fmt"], case["kind"], case["preset"]
    pal = M.rand_palette(rng)
    if fmt == "mge":
        pix = M.rand_pixels(rng, 320, 200, kind)
        rgb = case.get("rgb", True)
        return fmt, M.enc_mge(pix, pal, rgb, True, rng, preset), M.expected_mge(pix, pal, rgb), pix, pal
    if fmt == "rat":
        pix = M.rand_pixels(rng, 320, 199, kind)
        if case.get("low3"):
            # keep the low-nibble pixels below 8 so that the known '& 7' defect cannot apply
            pix = [[(v & 7) if x % 2 else v for x, v in enumerate(row)] for row in pix]
        data, esc = M.enc_rat(pix, pal, rng, preset, escape=case.get("escape"))
        return fmt, data, M.expected_rgb(pix, pal), pix, pal
    if fmt == "cm3":
        two = case.get("two", False)
        pix = M.rand_pixels(rng, 320, 384 if two else 192, kind)
        return fmt, M.enc_cm3(pix, pal, two, case.get("pat", True), rng, preset), M.expected_rgb(pix, pal), pix, pal
    if fmt == "vef":
        vt = case["vt"]
        w, h, ncol, rec, ppb = M.VEF_TYPES[vt]
        pix = M.rand_pixels(rng, w, h, kind, ncol)
        data = M.enc_vef(pix, pal, vt, True, rng, preset)
        # oracle self-check: the reference expansion of what the encoder wrote is the raw form
        pos = 18
        raw = bytearray()
        for _ in range(400):
            ln = data[pos]
            raw += unsquash_ref(data[pos + 1:pos + 1 + ln])
            pos += 1 + ln
        if bytes(raw) != b"".join(M.vef_pack_rows(pix, vt)) or pos != len(data):
            raise AssertionError("reference VEF encoder self-check failed")
        return fmt, data, ("vef", M.expected_vef(pix, pal, vt), w, h), pix, pal
    raise ValueError(fmt)


def run_case(case):
    obs = {"key": "%(fmt)s|%(kind)s|%(preset)s|%(seed)d" % case + ("|esc%d" % case["escape"] if case.get("escape") is not None else ""), "counters": {"decodes": 1}, "viols": [],
           "sets": {"layouts": ["%s/%s" % (case["fmt"], case["preset"])]}}
    if case["fmt"] == "unsquash":
        return run_unsquash(case, obs)
    if case["fmt"] == "mgeview":
        return run_view(case, obs)
    fmt, data, exp, pix, pal = build(case)
    res = D.decode(fmt, data, [])
    cl = observe.classify(fmt, res)
    detail = {"case": case, "input_bytes": len(data)}
    if cl["kind"] != "complete":
        obs["viols"].append({"sig": "C17/%s/no-complete-image/%s" % (fmt, cl["kind"]),
                             "detail": dict(detail, outcome={k: v for k, v in cl.items() if k not in ("img", "png")})})
        return obs
    if fmt == "vef":
        n, bad = check_vef(cl, exp)
    else:
        rows = pnm.pixels_rgb(cl["img"])
        n, bad = compare_rgb(rows, exp)
    obs["counters"]["pixels_compared"] = n
    if bad is not None:
        sig = "C17/%s/pixel-mismatch" % fmt
        if fmt == "rat":
            # hypothesis test: is the whole picture explained by 'low nibble masked with 7'?
            exp7 = [[M.rgb6(pal[v if x % 2 == 0 else v & 7]) for x, v in enumerate(row)] for row in pix]
            if rows == exp7:
                sig = "C17/rat/low-nibble-bit3-dropped"
        obs["viols"].append({"sig": sig, "detail": dict(detail, first_mismatch={"x": bad[0], "y": bad[1], "got": bad[2],
                                                                                 "expected": bad[3]})})
    if case.get("sample"):
        obs["sample"] = {"format": fmt, "preset": case["preset"], "pixel_kind": case["kind"], "input_bytes": len(data),
                         "pixels_compared": n}
    return obs


class _TkStub(object):
    """Stand-in for Tk / Canvas while the packaged viewer (entry point mge_viewer2) runs without a display."""

    def __init__(self, *a, **kw):
        pass

    def __getattr__(self, name):
        return lambda *a, **kw: None


def view_frame(data):
    """The frame the viewer hands to PhotoImage.put() for one MGE file, as a list of colour tokens."""
    import io
    import sys

    import coco.mge_viewer2 as viewer

    frames = []

    class Photo(_TkStub):
        def put(self, frame, *a, **kw):
            frames.append(frame)

    saved = (viewer.Tk, viewer.Canvas, viewer.PhotoImage, sys.stdout)
    viewer.Tk, viewer.Canvas, viewer.PhotoImage = _TkStub, _TkStub, Photo
    sys.stdout = io.StringIO()
    try:
        viewer.view(io.BytesIO(data))
    finally:
        viewer.Tk, viewer.Canvas, viewer.PhotoImage, sys.stdout = saved
    if len(frames) != 1:
        raise AssertionError("viewer showed %d frames" % len(frames))
    return [t for t in frames[0].split() if t not in ("{", "}")]


def run_view(case, obs):
    """The second MGE decoder of the package (the Tk viewer): the frame for a run-length file is the frame for the
    uncompressed file of the same picture."""
    rng = random.Random(case["seed"])
    pal = [p & 63 for p in M.rand_palette(rng)]
    pix = M.rand_pixels(rng, 320, 200, case["kind"])
    rgb = case.get("rgb", True)
    packed = M.enc_mge(pix, pal, rgb, True, rng, case["preset"])
    plain = M.enc_mge(pix, pal, rgb, False)
    detail = {"case": case, "input_bytes": len(packed)}
    try:
        want = view_frame(plain)
    except Exception as exc:  # noqa: BLE001 - the uncompressed form is the reference: without it nothing is decided
        obs["counters"]["viewer_reference_failed"] = 1
        obs["counters"]["pixels_compared"] = 0
        return obs
    try:
        got = view_frame(packed)
    except Exception as exc:  # noqa: BLE001
        obs["viols"].append({"sig": "C17/mgeview/no-frame/%s" % type(exc).__name__, "detail": dict(detail, msg=str(exc)[:120])})
        return obs
    obs["counters"]["pixels_compared"] = min(len(got), len(want))
    obs["counters"]["viewer_frames"] = 1
    if got != want:
        k = next((i for i in range(min(len(got), len(want))) if got[i] != want[i]), min(len(got), len(want)))
        obs["viols"].append({"sig": "C17/mgeview/pixel-mismatch", "detail": dict(detail, first_mismatch={
            "x": k % 320, "y": k // 320, "got": got[k] if k < len(got) else None, "expected": want[k] if k < len(want) else None},
            pixels=(len(got), len(want)))})
    elif len(want) != 64000:
        obs["viols"].append({"sig": "C17/mgeview/frame-size", "detail": dict(detail, pixels=len(want))})
    return obs


def run_unsquash(case, obs):
    """Direct contract on veftopng.unsquash: result = reference expansion truncated to orig_len."""
    from coco import veftopng

    rng = random.Random(case["seed"])
    try:
        import icontract  # noqa: F401
        have_contracts = True
    except ImportError:
        have_contracts = False
    n = 0
    for _ in range(200):
        size = rng.choice([40, 80])
        raw = bytes(rng.choice([0, 0, 255, rng.randrange(256)]) for _ in range(rng.choice([size, size, size + 7, size - 3])))
        rec = M.squash_record(raw, rng, rng.choice(PRESETS))
        if rec is None:
            continue
        body = rec[1:]
        got = veftopng.unsquash(bytearray(body), len(body), size)
        want = list(unsquash_ref(body)[:size])
        n += 1
        if list(got) != want:
            obs["viols"].append({"sig": "C17/vef/unsquash-contract", "detail": {"record": body.hex(), "orig_len": size,
                                                                              "got": list(got)[:100], "want": want[:100]}})
            break
    obs["counters"]["unsquash_contract_evaluations"] = n
    obs["counters"]["pixels_compared"] = n
    obs["counters"]["icontract_available"] = 1 if have_contracts else 0
    return obs


def cases(tier, seed):
    q = tier == "quick"
    n = 0
    kinds = ["runs", "flatrows", "stripes", "zero", "max", "vrepeat", "random", "altnib", "corners", "carry"]
    reps = 1 if q else 25
    for rep in range(reps):
        for kind in kinds:
            for preset in PRESETS:
                n += 1
                base = {"kind": kind, "preset": preset, "seed": seed * 104729 + n, "sample": n % 60 == 1}
                if not q or (n % 2 == 0):
                    yield dict(base, fmt="mge", rgb=(n % 4 != 0))
                if not q or (n % 3 == 0):
                    yield dict(base, fmt="mgeview", rgb=(n % 2 != 0))
                yield dict(base, fmt="rat", low3=True)
                if not q or kind in ("runs", "vrepeat"):
                    yield dict(base, fmt="rat", low3=False)
                for vt in (0, 1, 3):
                    if not q or (n + vt) % 2 == 0:
                        yield dict(base, fmt="vef", vt=vt)
            for preset in ("coded", "mixed", "copyleft0"):
                n += 1
                base = {"kind": kind, "preset": preset, "seed": seed * 104729 + n, "sample": n % 60 == 1}
                yield dict(base, fmt="cm3", two=False, pat=True)
                if not q or kind in ("vrepeat", "flatrows", "runs", "carry"):
                    yield dict(base, fmt="cm3", two=True, pat=(n % 2 == 0))
    yield {"fmt": "rat", "kind": "runs", "preset": "escape-in-data", "seed": seed + 5, "low3": True}
    for esc in (0, 1, 10, 13, 26, 0x24, 0x2E, 0x5C, 0x7C, 0x7F, 0x80, 0xFF):
        yield {"fmt": "rat", "kind": "runs", "preset": "random", "seed": seed + 7 + esc, "low3": True, "escape": esc}
    for i in range(3 if q else 30):
        yield {"fmt": "unsquash", "kind": "-", "preset": "-", "seed": seed * 31 + i}
