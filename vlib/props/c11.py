"""C11 - each option changes only the aspect of the output it documents; the command line maps to the options.
Metamorphic monitor over pairs of real convert() executions at Hamming distance 1 in option space, and over
decb_to_b09.start(argv) vs convert()."""
import difflib
import glob
import io
import os
import random
import re
import sys

from ..b09ref import static
from .. import boot, harness, run
from ..cbref.ast import render
from ..gen import progs

PROPERTY = "C11"
LEVEL = "exploration"
RULE = ("case = one program x all 32 combinations of {filter_unused_linenum, initialize_vars, default_width32, "
        "output_dependencies, default_str_storage in {32, one of 80/16/255/33/1}}: each of the 80 pairs at Hamming distance 1 must differ only by "
        "the documented delta; CLI cases = program x flag subset of {-l,-z,-D,-w,-s n,-c file}: bytes written must equal "
        "convert(text, mapped options, procname = file stem) with OS-9 line ends; distinct = (program, option pair / flag set); "
        "non-trivial = both members of a pair converted")
ASSUMPTIONS = ["documented deltas as listed in DESIGN.md section 6/C11"]
REQUIRED_COUNTERS = ["pairs_compared"]

BOOL_OPTS = ["filter_unused_linenum", "initialize_vars", "default_width32", "output_dependencies"]

_LABEL = re.compile(r"^\d+ ?")
_INIT = re.compile(r'^[A-Za-z][A-Za-z0-9]?\$? := (0\.0|0|"")$')
_FILL = re.compile(r'^(FOR tmp_\d+ = 0 TO [0-9$A-F]+ \\ )+arr_\w+\$?\((tmp_\d+(, )?)+\) := (0|"") (\\ NEXT tmp_\d+ ?)+$')
_STRDIM = re.compile(r"^DIM \S+:STRING\[\d+\]$")
_STRSUF = re.compile(r"(?i):\s*STRING(\[\d+\])?")


def opts_of(bits, size):
    o = {k: bool(b) for k, b in zip(BOOL_OPTS, bits)}
    o["default_str_storage"] = size
    o["procname"] = "prog"
    return o


def strip_labels(text):
    return [_LABEL.sub("", ln, count=1) if re.match(r"^\d+( |$)", ln) else ln for ln in text.split("\n")]


def _dangling(text):
    """Jump targets of the last procedure of an emitted text that label no line (None when it does not parse)."""
    procs, err = harness.parse_b09(text)
    if procs is None:
        return None
    inf = static.analyse(procs[-1])
    return {t for (_, t, _) in inf.jumps} - set(inf.labels)


def _declared_twice(text, names):
    """Are all of these names already declared more than once in this text (the source itself DIMs them twice)?"""
    cnt = {}
    for ln in text.split("\n"):
        m = re.match(r"^(?:\d+ )?DIM (.*?)(?::\s*STRING(?:\[\d+\])?)?\s*$", ln.strip(), re.I)
        if m:
            for ent in re.split(r",\s*(?![^()]*\))", m.group(1)):
                nm = ent.split("(")[0].strip().lower()
                cnt[nm] = cnt.get(nm, 0) + 1
    return all(cnt.get(n, 0) > 1 for n in names)


def check_pair(name, on, off):
    """on/off: outputs with the option on / off (for the size option: non-default / default).  -> problem or None"""
    if name == "filter_unused_linenum":
        # lines that consist of nothing but a label (a source line that is only a number) become empty lines when the
        # label goes, and white space at the very end of a procedure is stripped by the bank: empty lines do not count
        a = [ln for ln in strip_labels(on) if ln.strip()]
        b = [ln for ln in strip_labels(off) if ln.strip()]
        if a and b:
            a[-1], b[-1] = a[-1].rstrip(), b[-1].rstrip()      # the bank strips the end of the last procedure
        if a != b:
            d = next(((x, y) for x, y in zip(a, b) if x != y), (len(a), len(b)))
            return {"first_difference": d}
        # ... but an empty line is still a line: only at the very end of the text (where the bank strips) may the two
        # outputs differ in how many there are.  The filter takes labels away, never lines.
        a2 = [ln if ln.strip() else "" for ln in strip_labels(on)]
        b2 = [ln if ln.strip() else "" for ln in strip_labels(off)]
        while a2 and not a2[-1]:
            a2.pop()
        while b2 and not b2[-1]:
            b2.pop()
        if len(a2) != len(b2):
            return {"lines_with_filter": len(a2), "lines_without": len(b2)}
        # the filter never ADDS a label: every label of the filtered text labels the same line of the unfiltered one
        def labelled(t):
            return [ln for ln in t.split("\n") if re.match(r"^\d+( |$)", ln) and _LABEL.sub("", ln, count=1).strip()]
        extra = [ln for ln in labelled(on) if ln not in set(labelled(off))]
        if extra:
            return {"label_only_with_the_filter_on": extra[:3]}
        # ... and only unused ones: a label still jumped to in the filtered text must still be there
        dang = _dangling(on)
        if dang:
            dang -= (_dangling(off) or set())
            if dang:
                return {"removed_but_used_labels": sorted(dang)[:5]}
        return None
    if name == "initialize_vars":
        la, lb = on.split("\n"), off.split("\n")
        sm = difflib.SequenceMatcher(a=lb, b=la, autojunk=False)
        for tag, i1, i2, j1, j2 in sm.get_opcodes():
            if tag == "equal":
                continue
            if tag != "insert":
                return {"op": tag, "off_lines": lb[i1:i2][:3], "on_lines": la[j1:j2][:3]}
            for ln in la[j1:j2]:
                s = ln.strip()
                if s == "" or _INIT.match(s) or _FILL.match(s):
                    continue
                return {"op": "insert", "unexpected_line": ln}
        return None
    if name == "default_width32":
        la, lb = on.split("\n"), off.split("\n")
        if len(la) != len(lb):
            return {"lens": (len(la), len(lb))}
        for x, y in zip(la, lb):
            if x != y:
                if x.replace("RUN _ecb_start(display, 1)", "") == y.replace("RUN _ecb_start(display, 0)", "") and "_ecb_start" in x:
                    continue
                return {"line_on": x, "line_off": y}
        return None
    if name == "output_dependencies":
        lines = on.split("\n")
        idx = [i for i, ln in enumerate(lines) if re.match(r"(?i)^procedure\s+\S+\s*$", ln)]
        if not idx:
            return {"why": "no procedure header in the bundle"}
        last = idx[-1]
        if lines[last].split()[1] != "prog":
            return {"why": "last procedure is %r" % lines[last]}
        # trailing white space at the very end of the program text is not significant (the procedure bank strips it)
        body = "\n".join(lines[last + 1:]).strip("\n").rstrip()
        if body != off.strip("\n").rstrip():
            a, b = body.split("\n"), off.strip("\n").rstrip().split("\n")
            d = next(((x, y) for x, y in zip(a, b) if x != y), (len(a), len(b)))
            return {"first_difference": d}
        # "... and the bundled procedures": what the option adds are the procedures the program RUNs (C13 judges the whole
        # closure; here only that nothing the program itself calls is left out)
        code = re.sub(r'"[^"\n]*"?', '""', "\n".join(ln.split("(*")[0] if '"' not in ln.split("(*")[0] or ln.split("(*")[0].count('"') % 2 == 0 else ln
                                                         for ln in off.split("\n")))
        code = "\n".join(ln.split("(*")[0] for ln in code.split("\n"))
        called = {m.lower() for m in re.findall(r"(?i)\brun\s+([A-Za-z_][A-Za-z0-9_]*)\s*\(", code)}
        have = {lines[i].split()[1].lower() for i in idx}
        lib = harness.library()
        missing = sorted(n for n in called if n in lib and n not in have)
        if missing:
            return {"called_but_not_bundled": missing}
        return None
    if name == "default_str_storage":
        # the added DIM name:STRING[n] lines may only declare names the text does not declare elsewhere
        declared = {}
        for ln in on.split("\n"):
            m = re.match(r"^(?:\d+ )?DIM (.*?)(?::\s*STRING(?:\[\d+\])?)?\s*$", ln.strip(), re.I)
            if m and not ln.lower().startswith(("dim joy", "dim display", "dim play", "dim erno")):
                for ent in re.split(r",\s*(?![^()]*\))", m.group(1)):
                    nm = ent.split("(")[0].strip().lower()
                    if nm:
                        declared[nm] = declared.get(nm, 0) + 1
        twice = sorted(k for k, v in declared.items() if v > 1)
        twice_off = set()
        for ln in off.split("\n"):
            m = re.match(r"^(?:\d+ )?DIM (.*?)(?::\s*STRING(?:\[\d+\])?)?\s*$", ln.strip(), re.I)
            if m:
                seen = {}
                for ent in re.split(r",\s*(?![^()]*\))", m.group(1)):
                    nm = ent.split("(")[0].strip().lower()
                    seen[nm] = seen.get(nm, 0) + 1
                twice_off |= {k for k, v in seen.items() if v > 1}
        twice = [k for k in twice if k not in twice_off]
        if twice and not _declared_twice(off, twice):
            return {"declared_twice_only_with_the_size_option": twice[:4]}

        def norm(t):
            return [_STRSUF.sub("", ln) for ln in t.split("\n") if not _STRDIM.match(ln.strip())]
        a, b = norm(on), norm(off)
        if a != b:
            d = next(((x, y) for x, y in zip(a, b) if x != y), (len(a), len(b)))
            return {"first_difference": d}
        return None
    raise ValueError(name)


ODD_TEXTS = ['10 F$="A\x0cB":PRINT F$\n20 REM X\x85Y\n30 DATA P\u2028Q,R\x0bS\n40 READ A$,B$\n',
             '10 PRINT "L\x1cM";"N\x1dO\x1eP"\n20 \' T\u2029U\n',
             '10 INPUT "WHO\x0c";N$\n20 A$="\x0c"+CHR$(12)\n30 IF A$="\x85" THEN 10\n',
             # the library's size tag spelled inside user literals, alone and followed by more literals on the same line
             '10 PRINT "TYPE: STRING<<>>";"!"\n20 A$=": string<<>>"+"X":B$="Q"\n30 DATA ": STRING<<>>","Z",": STRING<<>>"\n40 READ C$,D$\n50 PLAY "C":HDRAW "U1"\n',
             '10 B$="X:STRING<<>>":PRINT B$;"A";"B"\n20 REM "\n30 A=INSTR(1,B$,": STRING<<>>"):C$=STRING$(3,"Q")\n',
             # lines that hold nothing but their number (or a colon), referenced and unreferenced, first, in the middle, last
             '10 PRINT 1\n20 :\n30\n40 PRINT 2\n50 GOTO 30\n', '5\n10 A=1\n20\n30 ::\n40 IF A=1 THEN 20\n50\n',
             '10 :\n20 :\n30 PRINT "X"\n', '10 GOSUB 40\n20\n30 END\n40\n50 RETURN\n',
             # the opening of a BASIC09 comment inside literals, next to statements that need runtime procedures
             '10 PRINT@64,"(*) START"\n20 INPUT "NAME (*=ANY)";N$\n30 LOCATE 1,2:PRINT "(*";A;"*)"\n', '10 HPRINT(1,2),"(* X":SOUND 1,1\n20 PLAY "C":A$="(*"\n',
             # statements of Color BASIC that the tool refuses today (vacuous now; if a change starts to accept one, each option
             # still changes only its own aspect of what is emitted for it)
             '10 PRINT "X"\n20 RUN\n', '10 A=1\n20 RUN 10\n', '10 CLEAR 200,&H7000\n20 A$=MID$("ABC",2)\n', '10 DEFFNA(X)=X*2\n20 PRINT FNA(3)\n',
             '10 LINE(0,0)-(10,10),PSET\n20 PMODE 4,1:SCREEN 1,1\n', '10 OPEN "O",#1,"F"\n20 PRINT#1,"X"\n30 CLOSE#1\n', '10 EXEC 40960\n20 NEW\n']


def program_text(case):
    if case.get("text") is not None:
        return case["text"]
    if case.get("example"):
        return open(os.path.join(boot.REPO, case["example"])).read()
    rng = random.Random(case["seed"])
    if case.get("peg"):
        from coco.b09 import compiler
        from ..gen import peggen

        gr = getattr(compiler.grammar, "_real", compiler.grammar)
        return peggen.PegSampler(gr, rng, max_depth=rng.choice([14, 18, 22])).gen()
    g = progs.ProgGen(rng, max_depth=1, handlers=True)
    return render(g.program(rng.randint(2, 9)))


def run_case(case):
    obs = {"counters": {}, "viols": [], "sets": {}}
    text = program_text(case)
    if case["kind"] == "cli":
        return run_cli(case, text, obs)
    outs = {}
    alt_size = case.get("alt_size", 80)
    extra = {}
    if case.get("cfg"):
        # per-name sizes from a compiler configuration (they apply to DIMmed strings): every option still changes its own
        # aspect only - in particular the program is the same text with and without its runtime procedures behind it
        from coco.b09.configs import CompilerConfigs, StringConfigs

        extra["compiler_configs"] = CompilerConfigs(string_configs=StringConfigs(strname_to_size=dict(case["cfg"])))
    for bits in [(a, b, c, d) for a in (0, 1) for b in (0, 1) for c in (0, 1) for d in (0, 1)]:
        for size in (32, alt_size):
            r = harness.convert(text, **dict(opts_of(bits, size), **extra))
            outs[(bits, size)] = r["out"] if r["ok"] else None
    ok = [k for k, v in outs.items() if v is not None]
    obs["key"] = "prog|" + text + ("|cfg" if case.get("cfg") else "")
    if len(ok) != len(outs):
        if ok:
            obs["viols"].append({"sig": "C11/acceptance-depends-on-options",
                                 "detail": {"source": text[:600], "accepted": len(ok), "of": len(outs)}})
        obs["nontrivial"] = False
        obs["counters"]["refused_programs"] = 1
        return obs
    n = 0
    for (bits, size), out in outs.items():
        for i, name in enumerate(BOOL_OPTS):
            if bits[i] == 1:
                off_bits = tuple(0 if j == i else b for j, b in enumerate(bits))
                p = check_pair(name, out, outs[(off_bits, size)])
                n += 1
                if p:
                    obs["viols"].append({"sig": "C11/delta/" + name, "detail": dict(p, source=text[:700],
                                                                                     options_on=opts_of(bits, size))})
        if size != 32:
            p = check_pair("default_str_storage", out, outs[(bits, 32)])
            n += 1
            if p:
                obs["viols"].append({"sig": "C11/delta/default_str_storage", "detail": dict(p, source=text[:700],
                                                                                          options_on=opts_of(bits, size))})
    obs["counters"]["pairs_compared"] = n
    obs["evaluations"] = len(outs)
    if case.get("sample"):
        obs["sample"] = {"source": text[:300], "option_sets": len(outs), "pairs": n}
    # keep only one violation per signature per case
    seen = set()
    obs["viols"] = [v for v in obs["viols"] if not (v["sig"] in seen or seen.add(v["sig"]))]
    return obs


def run_cli(case, text, obs):
    from coco import decb_to_b09

    flags = case["flags"]
    d = os.path.join(run.WORK, "c11-%d" % os.getpid())
    os.makedirs(d, exist_ok=True)
    stem = case["stem"]
    src = os.path.join(d, stem + ".bas")
    # the output file is named differently from the input: the procedure is named after the INPUT file
    dst = os.path.join(d, ("out_" + stem if case["seed"] % 2 else "result") + ".b09")
    cfgf = os.path.join(d, "cfg.yaml")
    with open(src, "w", newline="") as f:
        f.write(text)
    argv = []
    opts = {"filter_unused_linenum": False, "initialize_vars": True, "default_str_storage": 32, "output_dependencies": True,
            "default_width32": True, "procname": stem}
    cfg = None
    LONG = {"--filter-unused-linenum": "-l", "--dont-initialize-vars": "-z", "--dont-output-dependencies": "-D",
            "--dont-run-width-32": "-w"}
    SHORT = {"-l": ("filter_unused_linenum", True), "-z": ("initialize_vars", False), "-D": ("output_dependencies", False),
             "-w": ("default_width32", False)}
    for fl in flags:
        if fl in LONG:
            argv.append(fl)
            k, v = SHORT[LONG[fl]]
            opts[k] = v
        elif fl in SHORT:
            argv.append(fl)
            k, v = SHORT[fl]
            opts[k] = v
        elif len(fl) > 2 and fl[0] == "-" and fl[1] != "-" and all("-" + c in SHORT for c in fl[1:]):
            argv.append(fl)               # combined short flags: -lz
            for c in fl[1:]:
                k, v = SHORT["-" + c]
                opts[k] = v
        elif fl.startswith("--default-string-storage="):
            argv.append(fl)
            opts["default_str_storage"] = int(fl.split("=")[1])
        elif fl.startswith("-s"):
            argv += ["-s", fl[2:]]
            opts["default_str_storage"] = int(fl[2:])
        elif fl == "-c":
            with open(cfgf, "w") as f:
                f.write("string_configs:\n  strname_to_size:\n    A$: 100\n    S$(): 50\n")
            argv += ["-c", cfgf]
            from coco.b09.configs import CompilerConfigs

            cfg = CompilerConfigs.load(__import__("pathlib").Path(cfgf))
    to_stdout = bool(case.get("to_stdout"))
    argv += [src, "-" if to_stdout else dst]
    if os.path.exists(dst):
        os.remove(dst)
    opened = []

    def hook(event, args):
        if event == "open" and isinstance(args[0], str) and args[1] and any(c in str(args[1]) for c in "wax+"):
            opened.append(args[0])

    if not getattr(sys, "_c11_hook", False):
        sys.addaudithook(lambda e, a: _HOOKS and _HOOKS[-1](e, a))
        sys._c11_hook = True
    _HOOKS.append(hook)
    saved = (sys.stdout, sys.stderr)

    class Out(io.StringIO):
        def close(self):           # the tool closes its output file; what it wrote is read afterwards
            pass

    sys.stdout, sys.stderr = Out(newline=""), io.StringIO()
    captured = sys.stdout
    exc = None
    try:
        decb_to_b09.start(argv)
    except BaseException as e:  # noqa: BLE001
        exc = e
    finally:
        sys.stdout, sys.stderr = saved
        _HOOKS.pop()
    obs["key"] = "cli|%s|%s|%s|%s" % (stem, " ".join(flags), text, to_stdout)
    want = harness.convert(text, compiler_configs=cfg, **opts) if cfg else harness.convert(text, **opts)
    detail = {"argv": argv[:-2] + [os.path.basename(src), os.path.basename(dst)], "source": text[:500], "mapped_options": opts}
    got = None
    if to_stdout:
        # the program on standard output ('-'): the same bytes as in a file - OS-9 line ends included
        got = captured.getvalue().encode("utf-8", "replace")
        obs["counters"]["cli_stdout_runs"] = 1
    elif os.path.exists(dst):
        with open(dst, "rb") as f:
            got = f.read()
    if exc is not None or not want["ok"]:
        if (exc is None) != want["ok"]:
            obs["viols"].append({"sig": "C11/cli/acceptance-differs-from-convert", "detail": dict(detail, cli_exception=repr(exc)[:200], convert_ok=want["ok"])})
        obs["nontrivial"] = False
        obs["counters"]["cli_refused"] = 1
    else:
        obs["counters"]["pairs_compared"] = 1
        obs["counters"]["cli_runs"] = 1
        # "names the procedure after the input file": the stem when it is a legal BASIC09 name, else the fixed fallback
        if opts["output_dependencies"] and got is not None:
            legal = re.fullmatch(r"[a-zA-Z0-9_-]+", stem) is not None
            wanted_header = "procedure " + (stem if legal else "program")
            heads = [ln for ln in got.decode("utf-8", "replace").split("\r") if ln.lower().startswith("procedure ")]
            if not heads or heads[-1] != wanted_header:
                obs["viols"].append({"sig": "C11/cli/procedure-name", "detail": dict(detail, header=heads[-1:] , expected=wanted_header)})
        exp = want["out"].replace("\n", "\r").encode()
        if got != exp:
            gl = (got or b"").decode("latin1").split("\r")
            el = exp.decode("latin1").split("\r")
            dd = next(((x, y) for x, y in zip(gl, el) if x != y), (len(gl), len(el)))
            which = "?"
            for k in ("filter_unused_linenum", "initialize_vars", "output_dependencies", "default_width32", "default_str_storage"):
                alt = dict(opts)
                alt[k] = (not alt[k]) if isinstance(alt[k], bool) else (32 if alt[k] != 32 else 80)
                w2 = harness.convert(text, **alt)
                if w2["ok"] and w2["out"].replace("\n", "\r").encode() == got:
                    which = k
            sig = "C11/cli/line-ends" if (got or b"").replace(b"\n", b"\r") == exp else "C11/cli/output-differs/" + which
            obs["viols"].append({"sig": sig, "detail": dict(detail, first_difference=dd)})
        elif b"\n" in got:
            obs["viols"].append({"sig": "C11/cli/line-ends", "detail": detail})
        stray = [p for p in opened if os.path.abspath(p) != os.path.abspath(dst)]
        if stray:
            obs["viols"].append({"sig": "C11/cli/writes-other-files", "detail": dict(detail, files=stray[:5])})
    for fn in (src, dst, cfgf):
        try:
            os.remove(fn)
        except OSError:
            pass
    if case.get("sample"):
        obs["sample"] = {"argv": detail["argv"], "bytes_written": len(got or b""), "equal_to_convert": got == (want.get("out", "").replace("\n", "\r").encode() if want["ok"] else None)}
    return obs


_HOOKS = []


def cases(tier, seed):
    n = 120 if tier == "quick" else 8000
    for i in range(n):
        yield {"kind": "opts", "seed": seed * 7368787 + i, "sample": i % 60 == 0, "alt_size": [80, 16, 255, 33, 1][i % 5],
               "peg": i % 4 == 3}
    ex = sorted(glob.glob(os.path.join(boot.REPO, "examples", "*", "*.bas")))
    for p in ex if tier == "thorough" else ex[:6]:
        yield {"kind": "opts", "example": os.path.relpath(p, boot.REPO), "seed": 0}
    flagsets = []
    base = ["-l", "-z", "-D", "-w"]
    for m in range(16):
        flagsets.append([f for j, f in enumerate(base) if m >> j & 1])
    extra = [["-s80"], ["-s64", "-D"], ["-c"], ["-c", "-s40", "-l"], ["-s33", "-z", "-w"], ["-s16"], ["-s1", "-l"], ["-s32"],
             ["-w", "-z", "-s255", "-l"], ["-w", "-D", "-z", "-l"], ["-D", "-l"], ["-s80", "-s16"], ["-l", "-l"], ["-lz"], ["-wDzl"],
             ["--filter-unused-linenum"], ["--dont-initialize-vars", "--dont-run-width-32"], ["--dont-output-dependencies", "-l"],
             ["--default-string-storage=48", "-z"], ["-z", "--default-string-storage=20", "-s70"], ["-c", "-D", "-s16"]]
    stems = ["prog", "my-prog", "A_1", "x9", "game.v2", "hello world", "star+", "caf\u00e9", "hello ", "9", "a.b.c", "x(1)",
             # long file names (the procedure is named after the file, however long the name is)
             "maze_generator_for_the_coco_3", "maze_generator_for_the_coco_3x", "the-quick-brown-fox-jumps-over-the-lazy", "x" * 64, "A1_" * 30]
    k = 0
    for i, t in enumerate(ODD_TEXTS):
        # characters that line-splitting routines (not the tool's grammar) take for line ends, inside literals / comments / DATA
        for fs in ([], ["-l", "-z"], ["-D", "-s80"]):
            yield {"kind": "cli", "seed": i, "flags": fs, "stem": "odd%d" % i, "text": t}
        yield {"kind": "opts", "seed": i, "text": t}
    # one program that pulls in every runtime helper with a sized string parameter, and string arrays with and without DIM:
    # the command line's -s reaches all of them exactly as the option does
    helpers = '10 DIM N$(3)\n20 PLAY "C":HDRAW "U1":A=VAL(A$)+INSTR(1,A$,"X"):PRINT STRING$(2,"*")\n30 INPUT B$,C:N$(1)=B$:M$(2)=B$\n40 READ D:DATA ,1\n'
    for j, fs in enumerate(([], ["-s80"], ["-s16"], ["-s200", "-l"], ["-s33", "-z"], ["--default-string-storage=64"], ["-s80", "-D"], ["-s1"])):
        yield {"kind": "cli", "seed": 900 + j, "flags": fs, "stem": "helpers", "text": helpers}
        yield {"kind": "cli", "seed": 950 + j, "flags": fs, "stem": "helpers", "text": helpers, "to_stdout": True}
    for i, t in enumerate(['10 DIM N$,A$(3),K\n20 N$="X":A$(1)=N$:K=LEN(N$)\n30 PRINT N$;A$(1);B$\n', '10 DIM Q$\n20 INPUT Q$\n30 IF Q$="" THEN 20\n',
                           '10 DIM S$(2,2),T$,U\n20 T$=STR$(U)+HEX$(U):S$(1,1)=T$\n30 READ T$:DATA X\n']):
        # programs that DIM their own scalar strings (the size option must re-size them, not declare them again)
        for a in (80, 16):
            yield {"kind": "opts", "seed": i, "text": t, "alt_size": a}
            yield {"kind": "opts", "seed": i, "text": t, "alt_size": a, "cfg": {"N$": 10, "A$()": 8, "Q$": 100, "S$()": 12, "T$": 40}}
    for fs in flagsets + extra:
        for rep in range(1 if tier == "quick" else 8):
            k += 1
            yield {"kind": "cli", "seed": seed * 15487469 + k, "flags": fs, "stem": stems[k % len(stems)], "sample": k % 10 == 0, "to_stdout": k % 4 == 2}
