"""C03 - arrays, DATA/READ, PRINT, INPUT and string functions keep their meaning.
Trace + store monitor: PRINT/INPUT event streams and the final variable store of the reference BASIC09
interpreter running convert() output vs the Color BASIC reference; with pre-initialisation requested, the
interpreter's uninitialised-read tracker must stay silent."""
import random

from .. import harness
from ..cbref.ast import render
from ..cbref.interp import canon
from ..gen import exprs as X
from ..gen import progtools

PROPERTY = "C03"
LEVEL = "exploration"
USES_REFERENCE_MODELS = True
RULE = ("case = program assembled from data blocks: DIM (1-3 dimensions, decimal/hex bounds, several names, scalars) with "
        "stores to and read-back of all corner elements; implicit arrays; READ into scalar/element/string targets from DATA "
        "lines with quoted, unquoted (inner/trailing blanks), numeric, hex and empty items, before and after the READ, RESTORE "
        "mid-way; PRINT lists over arrangements of ; , and juxtaposition with leading/trailing separators, PRINT@, TAB; INPUT / "
        "LINE INPUT with/without prompt and 1-3 targets; string functions on boundary arguments; x string storage {32,33,64,80,255} (values as long as the configured size in every kind of string variable) x "
        "initialize_vars; distinct = structural key of the program; non-trivial = source ran without error and traces compared")
ASSUMPTIONS = ["BASIC09: base 0 + DIM a(n) gives 0..n-1; READ needs datum and target of the same class; undeclared names are REAL / STRING[32]",
               "printed numbers are compared by value; PRINT separators as tokens (zone, tab, newline)"]
REQUIRED_COUNTERS = ["traces_compared"]

n = X.num


def P(*items):
    out = []
    for it in items:
        if it in (";", ","):
            out.append(("sep", it))
        else:
            out.append(("e", it))
    return ("print", out, None)


class DataGen(object):
    def __init__(self, rng, storage):
        self.r = rng
        self.lines = []
        self.data_lines = []
        self.inputs = []
        self.storage = storage
        self.mid = 0
        self.implicit_multidim = False
        self.readinput_only = False
        self.num_into_str = False
        self.arr_names = ["X", "Y", "T", "AR", "ZZ"]
        self.sarr_names = ["S$", "L$", "NM$"]
        self.dims_line = []
        self.data_before = rng.random() < 0.5
        self.first_read = None

    def tag(self):
        self.mid += 1
        return ("str", "t%d" % self.mid)

    def add(self, *stmts):
        self.lines.append(list(stmts))

    def block_array(self):
        r = self.r
        is_s = r.random() < 0.35
        name = r.choice(self.sarr_names if is_s else self.arr_names)
        (self.sarr_names if is_s else self.arr_names).remove(name)
        nd = r.choice([1, 1, 2, 3])
        dimmed = r.random() < 0.65
        if dimmed:
            bounds = [r.choice([0, 1, 2, 3, 5, 10, 12] + ([11, 100, 255, 256, 1000] if nd == 1 else [11, 20] if nd == 2 else [])) for _ in range(nd)]
            spell = [("&H%X" % b if r.random() < 0.25 else str(b)) for b in bounds]
            self.dims_line.append((name, bounds, spell))
        else:
            bounds = [10] * nd
            if nd > 1:
                self.implicit_multidim = True
        corners = [[]]
        for b in bounds:
            corners = [c + [i] for c in corners for i in sorted({0, b, b // 2})]
        r.shuffle(corners)
        corners = corners[:6]
        stores = []
        for k, c in enumerate(corners):
            val = ("str", "v%d" % k) if is_s else n(k + 1)
            stores.append(("let", ("arr", name, [n(i) for i in c]), val, False))
        for i in range(0, len(stores), 3):
            self.add(*stores[i:i + 3])
        # untouched element is 0 / ""
        free = [b // 2 + (1 if b > 2 else 0) for b in bounds]
        items = [self.tag()]
        for c in corners + ([free] if all(f <= b for f, b in zip(free, bounds)) and free not in corners else []):
            items += [";", ("arr", name, [n(i) for i in c])]
        self.add(P(*items))
        if not is_s and r.random() < 0.5:
            # subscript computed from variables
            self.add(("let", ("var", "Q"), n(corners[0][0]), False),
                     ("let", ("var", "R"), ("arr", name, [("var", "Q")] + [n(i) for i in corners[0][1:]]), False), P(self.tag(), ";", ("var", "R")))

    def block_data(self):
        r = self.r
        k = r.randint(2, 5)
        targets = []
        items = []
        for i in range(k):
            want_str = r.random() < 0.5
            x = r.random()
            if want_str:
                if x < 0.3:
                    item = ("q", r.choice(["HELLO", "A B", " X ", "", "1,2", "A:B"]))
                elif x < 0.7:
                    item = ("u", r.choice(["HI", "A B", "XYZ  ", "R2D2", "X-1", "Red", "light blue", "Mc"]))
                elif x < 0.85:
                    item = ("u", "")
                else:
                    item = ("n", 12.0, ["12"], "into-string") if x < 0.93 else ("h", 255, "FF", "into-string")
                    self.num_into_str = True
                tg = r.choice([("var", "D$"), ("var", "E$"), ("arr", "G$", [n(i)])])
            else:
                if x < 0.5:
                    v = r.choice([0, 1, 5, 12, 2.5, 100])
                    item = ("n", float(v), X.num(v)[2])
                elif x < 0.65:
                    item = ("n", -3.0, ["-", "3"])
                elif x < 0.8:
                    item = ("u", "")
                else:
                    hv = r.choice([255, 0, 0x7FFF, 0x8000, 0x8001, 0xFFFF, 0x10])
                    item = ("h", hv, "%X" % hv)
                tg = r.choice([("var", "D"), ("var", "E"), ("arr", "G", [n(i)])])
            targets.append(tg)
            items.append(item)
        cut = r.randint(1, k)
        data_stmts = [("data", items[:cut])] + ([("data", items[cut:])] if cut < k else [])
        before = self.data_before
        if self.first_read is None:
            self.first_read = targets[0]
        if before:
            for d in data_stmts:
                self.add(d)
        self.add(("read", targets[:cut]))
        if cut < k:
            self.add(("read", targets[cut:]))
        show = [self.tag()]
        for t in targets:
            show += [";", t]
        self.add(P(*show))
        if not before:
            for d in data_stmts:
                self.data_lines.append([d])
        self.uses_g = True

    def block_print(self):
        r = self.r
        pool = [n(7), ("var", "A"), ("str", "X"), ("var", "A$"), ("bin", "+", ("var", "A$"), ("str", "!")), n(2.5),
                ("fn", "CHR$", [n(65)]), ("fn", "TAB", [n(r.randint(0, 12))]), ("fn", "LEN", [("var", "A$")]),
                # numeric constants of every shape: fractions below one, zero, negative, many digits, hex
                r.choice([n(0.5), n(0.25), ("num", 0.5, ["0.5"]), n(0.015625), n(0), ("un", "-", n(3)), ("un", "-", n(0.75)),
                          n(123456), n(100.125), ("hex", 255, "FF"), ("num", 12.0, ["12."]), ("num", 7.0, ["007"]),
                          ("hex", 0x8000, "8000"), ("hex", 0x7FFF, "7FFF"), ("hex", 0xFFFF, "FFFF"), n(32768), n(65535)])]
        k = r.randint(0, 4)
        items = []
        if r.random() < 0.25:
            items.append(("sep", r.choice(";,")))
        for i in range(k):
            items.append(("e", r.choice(pool)))
            x = r.random()
            if i < k - 1:
                items.append(("sep", r.choice(";;,")))
                if x < 0.15:
                    items.append(("sep", r.choice(";,")))
            elif x < 0.4:
                items.append(("sep", r.choice(";,")))
        at = ("bin", "+", n(32), ("var", "A")) if r.random() < 0.2 else None
        if r.random() < 0.3:
            # juxtaposed items without a separator (legal after a string literal, a closing parenthesis or a $ name)
            jux = r.choice([[("e", ("str", "J")), ("e", ("var", "A$"))], [("e", ("var", "A$")), ("e", ("str", "K"))],
                            [("e", ("fn", "CHR$", [n(66)])), ("e", ("var", "A"))], [("e", ("str", "L")), ("e", n(4))]])
            items = jux + ([("sep", ";")] + items if items and items[0][0] == "e" else items)
        self.add(("print", items, at))
        self.add(P(self.tag()))

    def block_input(self):
        r = self.r
        line = r.random() < 0.3
        prompt = r.choice([None, "NAME", "X,Y", "", "READY? ", "? ", "WHY?", "A;B", " ", "N: "])
        if line:
            tg = [("var", "I$")]
            self.inputs.append(r.choice(["HELLO THERE", "A,B", ""]))
        else:
            tg = []
            for _ in range(r.randint(1, 3)):
                if r.random() < 0.5:
                    tg.append(r.choice([("var", "I$"), ("var", "J$")]))
                    self.inputs.append(r.choice(["ABC", "X Y", "7"]))
                else:
                    tg.append(r.choice([("var", "IN"), ("var", "JN"), ("arr", "G", [n(9)])]))
                    self.inputs.append(r.choice(["5", "12", "2.5", "-3", "0"]))
            self.uses_g = True
        self.add(("input", prompt, tg, line))
        show = [self.tag()]
        for t in tg:
            show += [";", t]
        self.add(P(*show))

    def block_strfn(self):
        r = self.r
        long_ok = self.storage != 32
        s = r.choice(["", "A", "HELLO", "AB CD", "&H1F", "&HFF"] + [x for x in ("ABCDEFGHIJKLMNOPQRSTUVWXYZ0123456789+-", "0" * 33 + "12") if long_ok and len(x) + 3 <= self.storage])
        self.add(("let", ("var", "W$"), ("str", s), False))
        L = len(s)
        W = ("var", "W$")
        exprs = [("fn", "LEFT$", [W, n(r.choice([0, 1, L, L + 2]))]), ("fn", "RIGHT$", [W, n(r.choice([0, 1, L, L + 2]))]),
                 ("fn", "MID$", [W, n(r.choice([1, max(1, L), L + 1])), n(r.choice([0, 1, L + 3]))]),
                 ("fn", "LEN", [W]), ("fn", "LEN", [("bin", "+", W, W)]), ("fn", "CHR$", [n(r.choice([48, 65, 90]))]),
                 ("fn", "STRING$", [n(r.choice([0, 1, 3])), ("str", "AB")]), ("fn", "INSTR", [n(1), ("bin", "+", W, ("str", "XAB")), ("str", "AB")]),
                 ("fn", "VAL", [("str", r.choice(["12", "2.5", "0"]))]), ("fn", "VAL", [W])]
        if L:
            exprs.append(("fn", "ASC", [W]))
        # INSTR at its boundaries: start at / one past / beyond the end, empty and over-long patterns
        pats = [("str", ""), ("str", s[-1:] or "Z"), W, ("bin", "+", W, ("str", "X")), ("str", s[:1] or "Q")]
        for _ in range(2):
            exprs.append(("fn", "INSTR", [n(r.choice([1, max(1, L), L + 1, L + 2])), W, r.choice(pats)]))
        r.shuffle(exprs)
        show = [self.tag()]
        for e in exprs[:4]:
            show += [";", e]
        self.add(P(*show))
        if r.random() < 0.5:
            self.add(("let", ("var", "V$"), ("bin", "+", ("fn", "LEFT$", [W, n(2)]), ("fn", "RIGHT$", [W, n(1)])), False), P(self.tag(), ";", ("var", "V$")))
        if r.random() < 0.5:
            # arguments that are bare variables (and an array element): the functions read them, they do not change them
            k = r.choice([1, 2, 3])
            self.add(("let", ("var", "N1"), n(k), False), ("let", ("var", "N2"), n(2), False), ("let", ("arr", "G", [n(1)]), n(3), False) if self.arr_names else ("let", ("var", "N3"), n(3), False),
                     ("let", ("var", "V$"), ("fn", "STRING$", [("var", "N1"), ("str", "*")]), False),
                     ("let", ("var", "V3"), ("fn", "INSTR", [("var", "N2"), ("bin", "+", W, ("str", "XAB")), ("str", "AB")]), False),
                     ("let", ("var", "V4"), ("fn", "VAL", [W]), False))
            self.add(P(self.tag(), ";", ("var", "V$"), ";", ("var", "N1"), ";", ("var", "N2"), ";", ("var", "V3"), ";", W, ";", ("var", "V4")))
        if r.random() < 0.5:
            # two (three) numeric string functions in ONE statement: each needs a result of its own
            a, b = r.choice(["12", "2.5", "7"]), r.choice(["30", "0.25", "100"])
            self.add(("let", ("var", "V1"), ("bin", "+", ("fn", "VAL", [("str", a)]), ("fn", "VAL", [("str", b)])), False),
                     ("let", ("var", "V2"), ("bin", "-", ("bin", "*", ("fn", "INSTR", [n(1), ("bin", "+", W, ("str", "XAB")), ("str", "AB")]), n(100)),
                                              ("fn", "INSTR", [n(1), ("bin", "+", W, ("str", "XAB")), ("str", "B")])), False),
                     ("let", ("var", "V3"), ("bin", "+", ("bin", "+", ("fn", "VAL", [("str", a)]), ("fn", "LEN", [W])), ("fn", "INSTR", [n(1), ("str", "HELLO"), ("str", "L")])), False),
                     P(self.tag(), ";", ("var", "V1"), ";", ("var", "V2"), ";", ("var", "V3")))

    def block_capacity(self):
        """A non-default string size must hold for every kind of string variable: scalars, DIMmed and implicit array
        elements, READ / INPUT targets, concatenation results.  Values are exactly as long as the configured size."""
        r = self.r
        if self.storage == 32:
            return self.block_strfn()
        size = min(self.storage, 120)
        long1 = ("<" + "abcdefghij" * 13)[:size - 1] + ">"
        half = size // 2
        lit = ("str", long1)
        pick = r.random()
        if pick < 0.3:
            # (DC$ and IM$ are also arrays of this workload: a scalar and an array of one name are two variables)
            tg = ("var", r.choice(["C1$", "C2$", "DC$", "IM$"]))
            if tg[1] in ("C1$", "C2$") and r.random() < 0.4 and not any(d[0] == tg[1] for d in self.dims_line):
                # some programs DIMension the scalar (legal, and a no-op in Color BASIC), the others of the same worker
                # process use the same name without: what one program declares is nothing to the next
                self.dims_line.append((tg[1], [], []))
        elif pick < 0.65:
            tg = ("arr", r.choice(["IM$", "IN$"]), [n(r.choice([0, 3, 10]))])        # never DIMensioned
        else:
            if not any(d[0] == "DC$" for d in self.dims_line):
                self.dims_line.append(("DC$", [4], ["4"]))
            tg = ("arr", "DC$", [n(r.choice([0, 2, 4]))])
        how = r.random()
        if how < 0.4:
            self.add(("let", tg, lit, False))
        elif how < 0.6:
            self.add(("let", tg, ("bin", "+", ("str", long1[:half]), ("str", long1[half:])), False))
        elif how < 0.8:
            self.data_lines.append([("data", [("q", long1)])]) if False else None
            self.add(("let", ("var", "W$"), ("str", long1[:half]), False), ("let", tg, ("bin", "+", ("var", "W$"), ("str", long1[half:])), False))
        else:
            self.add(("let", tg, ("fn", "STRING$", [n(size), ("str", "#")]), False))
            long1 = "#" * size
        self.add(P(self.tag(), ";", ("fn", "LEN", [tg]), ";", ("fn", "RIGHT$", [tg, n(2)]), ";", ("fn", "MID$", [tg, n(32), n(3)])))
        if r.random() < 0.5:
            self.add(("let", ("var", "V$"), tg, False), P(self.tag(), ";", ("fn", "LEN", [("var", "V$")]), ";", ("fn", "INSTR", [n(30), ("var", "V$"), ("str", long1[-2:])])))

    def block_openstr(self):
        """A string constant whose closing quote is left out (legal at the very end of a line): the text up to the line end,
        trailing blanks included, is the value - for scalar and for array-element targets alike."""
        r = self.r
        text = r.choice(["HELLO", "X", "A B ", "TWO  ", "Q:R", "1,2", "'", "(*"])
        which = r.random()
        if which < 0.35:
            tg = ("var", r.choice(["O1$", "O2$"]))
        elif which < 0.7:
            tg = ("arr", r.choice(["OI$", "OJ$"]), [n(r.choice([0, 3, 10]))])           # never DIMensioned
        else:
            if not any(d[0] == "OD$" for d in self.dims_line):
                self.dims_line.append(("OD$", [4, 2], ["4", "2"]))
            tg = ("arr", "OD$", [n(r.choice([0, 4])), n(r.choice([0, 2]))])
        first = [("let", ("var", "A"), ("bin", "+", ("var", "A"), n(0)), False)] if r.random() < 0.5 else []
        self.add(*(first + [("let", tg, ("ostr", text), r.random() < 0.3)]))
        self.add(P(self.tag(), ";", tg, ";", ("str", "|"), ";", ("fn", "LEN", [tg])))

    def block_oddchars(self):
        """Characters that line-splitting routines of the host language (not the tool's grammar) take for line ends, inside a
        constant, a quoted and an unquoted DATA item and an INPUT prompt: PRINT, READ and the string functions see one line."""
        r = self.r
        odd = ["\x0b", "\x0c", "\x1c", "\x1d", "\x1e", "\x85", "\u2028", "\u2029"]
        c1, c2, c3 = r.choice(odd), r.choice(odd), r.choice(odd)
        lit = "PAGE" + c1 + "TWO"
        self.add(("let", ("var", "OC$"), ("str", lit), False),
                 P(self.tag(), ";", ("str", "A" + c2 + "B"), ";", ("var", "OC$"), ";", ("fn", "LEN", [("var", "OC$")]), ";",
                   ("fn", "INSTR", [n(1), ("var", "OC$"), ("str", c1)]), ";", ("fn", "STRING$", [n(2), ("str", c3)])))
        if r.random() < 0.6:
            if self.first_read is None:
                self.first_read = ("var", "OD$")
            d = ("data", [("q", "P" + c2 + "Q"), ("u", "R" + c3 + "S")])
            if self.data_before:
                self.add(d)
            else:
                self.data_lines.append([d])
            self.add(("read", [("var", "OD$"), ("var", "OE$")]), P(self.tag(), ";", ("var", "OD$"), ";", ("var", "OE$"), ";", ("fn", "LEN", [("var", "OE$")])))

    def block_uninit(self):
        # reads of never-assigned variables / elements: 0 and "" in Color BASIC
        r = self.r
        self.add(P(self.tag(), ";", ("var", "U1"), ";", ("var", "U$"), ";", ("fn", "LEN", [("var", "U2$")]), ";",
                   ("fn", "ABS", [("var", "U3")]), ";", ("arr", "UA", [n(3)])))
        if r.random() < 0.5:
            # never-assigned scalars that share their name with an array (implicit UA, UB$; DIMensioned UD)
            if not any(d[0] == "UD" for d in self.dims_line):
                self.dims_line.append(("UD", [3], ["3"]))
            self.add(P(self.tag(), ";", ("var", "UA"), ";", ("var", "UB$"), ";", ("arr", "UB$", [n(1)]), ";", ("var", "UD"), ";", ("arr", "UD", [n(2)])))

    def program(self, nblocks):
        r = self.r
        self.uses_g = False
        self.add(("let", ("var", "A"), n(r.randint(0, 5)), False), ("let", ("var", "A$"), ("str", r.choice(["Q", "HI", ""])), False))
        kinds = ["array", "data", "print", "input", "strfn", "uninit", "capacity", "openstr", "oddchars"]
        for _ in range(nblocks):
            k = r.choice(kinds)
            if k == "array" and not (self.arr_names and self.sarr_names):
                k = "print"
            getattr(self, "block_" + k)()
        if self.first_read is not None and r.random() < 0.6:
            # RESTORE rewinds to the first DATA item of the program
            self.add(("restore",), ("read", [self.first_read]), P(self.tag(), ";", self.first_read))
        self.add(P(self.tag()), ("end",))
        lines = self.lines + self.data_lines
        prog = []
        ln = 10
        if self.dims_line or self.uses_g:
            d = list(self.dims_line)
            if self.uses_g:
                d += [("G", [10], ["10"]), ("G$", [10], ["10"])]
            if r.random() < 0.3:
                d.append(("DS", [], []))
            prog.append((5, [("dim", d)]))
        for st in lines:
            prog.append((ln, st))
            ln += 10
        return prog


def stream(events):
    out = []
    for ev in events:
        if ev[0] == "print":
            row = []
            for t in ev[1:]:
                if t[0] == "s":
                    txt = t[1]
                    try:
                        v = float(txt.strip().rstrip(".") or "x")
                        core = txt.strip().rstrip(".")
                        # the value, and - for plain decimal spellings - the digits as printed (Color BASIC and BASIC09
                        # both write .5, not 0.5; a number folded into the text by some other formatter shows here)
                        row.append((v, core) if ("E" not in core.upper() and len(core) < 12) else v)
                    except ValueError:
                        if txt != "":
                            row.append(txt)
                else:
                    row.append(tuple(t))
            out.append(tuple(row))
        elif ev[0] == "prompt":
            out.append(("prompt", ev[1]))
        elif ev[0] == "input":
            out.append(("input", ev[2]))
        elif ev[0] == "at":
            out.append(("at", float(ev[1])))
        elif ev[0] == "run" and ev[1] == "ecb_at":
            out.append(("at", float(ev[2][0])))
        elif ev[0] in ("end", "stop"):
            out.append((ev[0],))
    return out


def compare(prog, inputs, opts, hyp=()):
    from ..cbref import interp as cbi

    text = render(prog)
    cbi.HYPOTHESIS.update(hyp)
    try:
        cb = harness.run_cb(prog, inputs=inputs, budget=5000)
    finally:
        for h in hyp:
            cbi.HYPOTHESIS.discard(h)
    res = {"text": text, "cb": cb["status"], "cb_error": cb.get("error"), "problems": []}
    if cb["status"] != "ok":
        return res
    if cb["unassigned_reads"] and not opts.get("initialize_vars"):
        res["cb"] = "needs-init"
        return res
    if opts.get("cli"):
        # the same options given on the command line (-s n, -z, -D): what READ, PRINT and the string functions see may not
        # depend on which door the program came through
        from .c13 import cli_convert

        conv = cli_convert(text, "prog", opts.get("default_str_storage", 32), opts.get("initialize_vars", False), False, deps=False)
    elif opts.get("bundle"):
        # the program with its runtime procedures in front of it (the command line's default): the program is the last
        # procedure of the text, and it is the same program
        conv = harness.convert(text, output_dependencies=True, procname="prog", **{k: v for k, v in opts.items() if k != "bundle"})
    else:
        conv = harness.convert(text, **opts)
    if not conv["ok"]:
        res["problems"].append(("refused" if conv["documented"] else "internal", conv.get("exc")))
        return res
    res["emitted"] = conv["out"]
    procs = None
    if opts.get("bundle"):
        allp, perr = harness.parse_b09(conv["out"])
        if allp is None:
            res["problems"].append(("b09-parse", perr))
            return res
        procs = [allp[-1]]
        res["emitted"] = conv["out"][-1500:]
    b = harness.run_b09(conv["out"], inputs=inputs, budget=60000, storage=opts.get("default_str_storage", 32), procs=procs)
    if b["status"] != "ok":
        res["problems"].append(("b09-" + b["status"], b["error"]))
        return res
    want, got = stream(cb["events"]), stream(b["events"])
    if want != got:
        i = next((k for k, (x, y) in enumerate(zip(want, got)) if x != y), min(len(want), len(got)))
        res["problems"].append(("trace-differs", {"at": i, "want": want[i:i + 2], "got": got[i:i + 2]}))
    diffs = harness.compare_stores(cb["store"], b["store"])
    if diffs:
        res["problems"].append(("store-differs", diffs[:4]))
    if opts.get("initialize_vars"):
        un = [u for u in b["uninit"] if not u.startswith("tmp_")]
        if un:
            res["problems"].append(("uninitialised-read", sorted(set(un))[:6]))
    return res


def dim_everything(prog, mode="all"):
    """Counterfactual: declare every array of the program explicitly, and assign every READ/INPUT-only scalar once."""
    used = {}
    targets_only = set()
    assigned = set()
    elsewhere = set()      # arrays that also occur outside READ/INPUT target position: the tool sees those uses
    for ln, s in progtools.all_stmts(prog):
        for role, e in progtools.stmt_exprs(s):
            top = [e, role == "target" and s[0] in ("read", "input")]

            def visit(x):
                if x[0] == "arr":
                    used[canon(x[1])] = max(used.get(canon(x[1]), 0), len(x[2]))
                    if not (x is top[0] and top[1]):
                        elsewhere.add(canon(x[1]))
                    for a in x[2]:
                        visit(a)
                elif x[0] in ("bin",):
                    visit(x[2]); visit(x[3])
                elif x[0] in ("un",):
                    visit(x[2])
                elif x[0] == "par":
                    visit(x[1])
                elif x[0] == "fn":
                    for a in x[2]:
                        visit(a)
            visit(e)
            if role == "target" and s[0] in ("read", "input") and e[0] == "var":
                targets_only.add(e[1])
    dimmed = set()
    for ln, s in progtools.all_stmts(prog):
        if s[0] == "dim":
            for name, b, sp in s[1]:
                dimmed.add(canon(name))
    extra = [(nm, [10] * nd, ["10"] * nd) for nm, nd in sorted(used.items()) if nm not in dimmed]
    pre = [("let", ("var", v), ("str", "") if v.endswith("$") else n(0), False) for v in sorted(targets_only)]
    if mode == "multidim":
        extra = [x for x in extra if len(x[1]) > 1]
        pre = []
    elif mode == "targets":
        extra = [x for x in extra if len(x[1]) == 1 and x[0] not in elsewhere]
    else:
        extra = [x for x in extra if len(x[1]) > 1 or x[0] not in elsewhere]
    out = []
    done = False
    for ln, st in prog:
        if not done:
            new = []
            if extra:
                new.append((max(0, ln - 2), [("dim", extra)]))
            if pre:
                new.append((max(1, ln - 1), pre))
            if st and st[0][0] == "dim":
                out.append((ln, st))
                out.extend([(ln + 1 + i, x[1]) for i, x in enumerate(new)])
            else:
                out.extend(new)
                out.append((ln, st))
            done = True
        else:
            out.append((ln, st))
    return sorted(out, key=lambda x: x[0])


def quote_numeric_items(prog):
    """Counterfactual: numeric-looking DATA items become quoted strings (same meaning for string targets)."""
    def fix(s):
        if s[0] == "data":
            return ("data", [("q", ("".join(it[2]) if it[0] == "n" else "&H" + it[2])) if len(it) > 3 else it for it in s[1]])
        return s
    return [(ln, [fix(s) for s in st]) for ln, st in prog]


def run_case(case):
    rng = random.Random(case["seed"])
    storage = case["storage"]
    g = DataGen(rng, storage)
    if case.get("fixed"):
        prog = [(ln, list(st)) for ln, st in case["fixed"]]
        inputs = case.get("inputs", [])
        g.implicit_multidim = g.readinput_only = g.num_into_str = True
    else:
        prog = g.program(case["nblocks"])
        inputs = g.inputs
    opts = {"initialize_vars": case["init"], "default_str_storage": storage}
    if case.get("cli"):
        opts["cli"] = True
    elif case.get("bundle"):
        opts["bundle"] = True
    obs = {"counters": {}, "viols": [], "sets": {}}
    obs["key"] = progtools.prog_key(prog) + "|%s|%s" % (storage, case["init"])
    r = compare(prog, inputs, opts)
    if r["cb"] != "ok":
        obs["nontrivial"] = False
        obs["counters"]["source_" + r["cb"]] = 1
        return obs
    probs = [p for p in r["problems"] if p[0] not in ("refused", "internal")]
    if len(probs) != len(r["problems"]):
        # the Color BASIC reference ran the program: it is in the fragment, so there has to be an emitted program
        ref = [p for p in r["problems"] if p[0] in ("refused", "internal")][0]
        obs["counters"]["refused_or_internal"] = 1
        obs["viols"].append({"sig": "C03/valid-program-%s/%s" % (ref[0], ref[1]),
                             "detail": {"source": r["text"][:1500], "kind": ref[0], "info": str(ref[1]), "options": opts, "inputs": inputs}})
        return obs
    obs["counters"]["traces_compared"] = 1
    if probs:
        kind, info = probs[0]
        detail = {"source": r["text"][:1500], "kind": kind, "info": str(info)[:500], "options": opts, "inputs": inputs,
                  "emitted": (r.get("emitted") or "")[-700:]}
        attempts = [("C03/array/implicit-multidim", dim_everything(prog, "multidim")),
                    ("C03/readinput/targets-unvisited", dim_everything(prog, "targets")),
                    ("C03/readinput/targets-unvisited", dim_everything(prog, "all")),
                    ("C03/data/numeric-item-into-string", quote_numeric_items(prog)),
                    ("C03/data/numeric-item-into-string", quote_numeric_items(dim_everything(prog)))]
        attempts = [(a, b, ()) for a, b in attempts]
        has_empty_at = any(st[0] == "print" and st[2] is not None and not st[1] for _, st in progtools.all_stmts(prog))
        if has_empty_at:
            H = ("PRINT@-empty-no-newline",)
            attempts = [("C03/print/empty-PRINT@-no-newline", prog, H)] + attempts + [(a, b, H) for a, b, _ in attempts]
        for sig, p2, hyp in attempts:
            r2 = compare(p2, inputs, opts, hyp)
            if r2["cb"] == "ok" and not r2["problems"]:
                obs["viols"].append({"sig": sig, "detail": detail})
                return obs
        obs["viols"].append({"sig": "C03/%s" % kind, "detail": detail})
    if case.get("sample"):
        obs["sample"] = {"source": r["text"][:600], "inputs": inputs, "options": opts}
    return obs


def cases(tier, seed):
    N = 1500 if tier == "quick" else 250000
    for i in range(N):
        yield {"seed": seed * 104723 + i, "nblocks": 1 + i % 4, "storage": 32 if i % 3 else [80, 80, 33, 255, 64][(i // 3) % 5], "init": i % 4 != 3, "sample": i % 500 == 0,
               "cli": i % 9 == 6, "bundle": i % 9 == 3}
