"""Child process of C12: converts / decodes a batch under the PYTHONHASHSEED it was started with and
prints the SHA-256 of every output."""
import hashlib
import json
import sys


def main():
    from vlib import boot
    boot.assert_repo()
    jobs = json.load(sys.stdin)
    out = []
    order = jobs.get("order")
    items = jobs["items"]
    idxs = order if order else list(range(len(items)))
    res = {}
    for i in idxs:
        it = items[i]
        if it["kind"] == "convert":
            from vlib import harness
            r = harness.convert(it["text"], **it["opts"])
            data = r["out"] if r["ok"] else "EXC:" + str(r.get("exc"))
            res[i] = hashlib.sha256(data.encode("utf-8", "replace")).hexdigest()
        else:
            from vlib.img import decoders
            r = decoders.decode(it["fmt"], bytes.fromhex(it["hex"]), it.get("args", []))
            res[i] = hashlib.sha256(repr((r["status"], r.get("exc"))).encode() + (r.get("out") or b"")).hexdigest()
    print(json.dumps([res[i] for i in range(len(items))]))


if __name__ == "__main__":
    main()
