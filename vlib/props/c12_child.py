"""Child process of C12: converts / decodes a batch under the PYTHONHASHSEED it was started with and
prints the SHA-256 of every output."""
import hashlib
import io
import json
import os
import sys


_SHARED = []


def shared_config():
    if not _SHARED:
        from coco.b09.configs import CompilerConfigs, StringConfigs
        _SHARED.append(CompilerConfigs(string_configs=StringConfigs(strname_to_size={"T$": 255})))
    return _SHARED[0]


def run_item(it):
    """One execution of the real code for one item -> SHA-256 of what it produced."""
    if it["kind"] == "convert":
        from vlib import harness
        opts = dict(it["opts"])
        if it.get("shared_cfg"):
            # one CompilerConfigs object handed to every conversion of this process (as a batch tool would): it is an
            # input, so nothing a conversion does may change what the next one gets out of it
            opts["compiler_configs"] = shared_config()
        elif it.get("cfg") is not None:
            # a configuration of this item's own (a fresh object): what it says ends with this conversion
            from coco.b09.configs import CompilerConfigs, StringConfigs
            opts["compiler_configs"] = CompilerConfigs(string_configs=StringConfigs(strname_to_size=dict(it["cfg"])))
        r = harness.convert(it["text"], **opts)
        data = r["out"] if r["ok"] else "EXC:" + str(r.get("exc"))
        return hashlib.sha256(data.encode("utf-8", "replace")).hexdigest()
    if it["kind"] == "cli":
        # the command line, always through the same source / config / output paths (as a batch run over one
        # directory would): only the files' contents differ from item to item
        from vlib import run
        from coco import decb_to_b09
        d = os.path.join(run.WORK, "c12cli-%d" % os.getpid())
        os.makedirs(d, exist_ok=True)
        src, dst, cfg = os.path.join(d, it.get("stem", "prog") + ".bas"), os.path.join(d, "prog.b09"), os.path.join(d, "b09.yaml")
        with open(src, "w", newline="") as f:
            f.write(it["text"])
        argv = list(it["flags"])
        if it.get("cfg") is not None:
            with open(cfg, "w") as f:
                f.write(it["cfg"])
            argv += ["-c", cfg]
        # the output file of the previous run is left where it is: a conversion replaces it, whatever it held
        saved = (sys.stdout, sys.stderr)

        class Out(io.StringIO):
            def close(self):        # the tool closes its output file; what it wrote is read afterwards
                pass

        sys.stdout, sys.stderr = Out(), io.StringIO()
        try:
            if it.get("to_stdout"):
                # the program goes to standard output ('-'): what this call writes there is this call's output - nothing
                # else belongs on that stream, and nothing of it on the stream of an earlier call
                mine = sys.stdout
                decb_to_b09.start(argv + [src, "-"])
                data = mine.getvalue().encode("utf-8", "replace")
            else:
                # the same file named in different ways (absolute, bare name from inside its directory, relative from the
                # directory above) - which one depends on the process, so that processes can be compared: the procedure is
                # named after the FILE, not after the way to it
                how = int(os.environ.get("PYTHONHASHSEED", "0") or 0) % 3
                cwd = os.getcwd()
                try:
                    if how == 1:
                        os.chdir(d)
                        decb_to_b09.start(argv + [os.path.basename(src), dst])
                    elif how == 2:
                        os.chdir(os.path.dirname(d))
                        decb_to_b09.start(argv + [os.path.join(os.path.basename(d), os.path.basename(src)), dst])
                    else:
                        decb_to_b09.start(argv + [src, dst])
                finally:
                    os.chdir(cwd)
                with open(dst, "rb") as f:
                    data = f.read()
        except BaseException as exc:  # noqa: BLE001 - SystemExit included
            data = ("EXC:" + type(exc).__name__).encode()
        finally:
            sys.stdout, sys.stderr = saved
        return hashlib.sha256(data).hexdigest()
    from vlib.img import decoders
    r = decoders.decode(it["fmt"], bytes.fromhex(it["hex"]), it.get("args", []))
    return hashlib.sha256(repr((r["status"], r.get("exc"))).encode() + (r.get("out") or b"")).hexdigest()


def main():
    from vlib import boot
    boot.assert_repo()
    jobs = json.load(sys.stdin)
    order = jobs.get("order")
    items = jobs["items"]
    idxs = order if order else list(range(len(items)))
    res = {}
    for i in idxs:
        res[i] = run_item(items[i])
    print(json.dumps([res[i] for i in range(len(items))]))


if __name__ == "__main__":
    main()
