"""C12 - conversion (and each decoder) is a deterministic function of input and options.

Executions of the real code are repeated across fresh interpreter processes with different
PYTHONHASHSEED values (the only schedule nondeterminism this code base has), across repeated calls in
one process, and across different orders of preceding conversions; outputs are compared by SHA-256."""
import hashlib
import json
import os
import random
import subprocess
import sys

from .. import harness, run
from . import c12_child
from ..cbref.ast import render
from ..gen import exprs as X
from ..gen import progs

PROPERTY = "C12"
LEVEL = "exploration"
RULE = ("case = a batch of programs (or image files, or command-line runs that reuse one source / config / output path with changing contents) x option sets, executed under H hash seeds in fresh processes, "
        "3 times in one process, and in 2 different orders; programs are biased to what can vary (2-8 implicit arrays of "
        "mixed kinds, several string sizes, several runtime dependencies, joystick prologue, many variables to initialise); "
        "distinct = distinct (text, options); non-trivial = the item was executed under at least 2 hash seeds")
ASSUMPTIONS = ["schedule nondeterminism of this pure-Python, single-threaded code = set/dict iteration order, which PYTHONHASHSEED controls"]
REQUIRED_COUNTERS = ["outputs_compared", "fresh_processes"]
SHARDS = 8

ARR_NAMES = ["A", "B", "C", "D", "E", "F", "G", "H", "K", "M", "N", "P", "Q", "R", "S", "T", "U", "V", "W", "X", "Y", "Z",
             "AA", "BB", "CC", "XY", "ZZ", "K9", "Q1"]


def biased_program(rng):
    lines = []
    n = 10
    if rng.random() < 0.5:
        names = [nm + ("$" if rng.random() < 0.4 else "") for nm in rng.sample(ARR_NAMES, rng.randint(2, 8))]
    else:
        # families of look-alike names: one or two first letters, with and without digit / letter suffix, numeric and
        # string variant of the same name together (whatever orders the declarations must separate all of them)
        names = []
        for base in rng.sample("ABCNXZ", rng.randint(1, 2)):
            fam = [base] + [base + d for d in "0123456789"] + [base + c for c in "AZ"]
            for nm in rng.sample(fam, rng.randint(3, 7)):
                kinds = rng.choice([[""], ["$"], ["", "$"]])
                names += [nm + k for k in kinds]
        rng.shuffle(names)
    for s in names:
        idx = [X.num(rng.randint(0, 3)) for _ in range(rng.choice([1, 1, 2]))]
        val = ("str", "X") if s.endswith("$") else X.num(1)
        lines.append((n, [("let", ("arr", s, idx), val, False)]))
        n += 10
    for nm in rng.sample(ARR_NAMES, rng.randint(2, 8)):
        s = nm + "$" if rng.random() < 0.5 else nm
        val = ("str", "Y") if s.endswith("$") else X.num(2)
        lines.append((n, [("let", ("var", s), val, False)]))
        n += 10
    g = progs.ProgGen(rng, max_depth=1)
    for _ in range(rng.randint(2, 6)):
        lines.append((n, [g.device_stmt()]))
        n += 10
    lines.append((n, [("let", ("var", "J"), ("fn", "JOYSTK", [X.num(0)]), False),
                      ("let", ("var", "S$"), ("bin", "+", ("fn", "STR$", [X.num(1)]), ("fn", "HEX$", [X.num(2)])), False)]))
    return lines


OPTS = [
    {}, {"initialize_vars": True}, {"initialize_vars": True, "default_str_storage": 80},
    {"output_dependencies": True, "procname": "p", "initialize_vars": True},
    {"output_dependencies": True, "procname": "p", "default_str_storage": 64, "filter_unused_linenum": True},
    {"output_dependencies": True, "procname": "maze.v2", "initialize_vars": True},
    {"output_dependencies": True, "procname": "my game"}, {"output_dependencies": True, "procname": ""},
    {"output_dependencies": True, "procname": "x-1_Y", "default_width32": False},
]


def child(items, hashseed, order=None):
    env = dict(os.environ)
    env["PYTHONHASHSEED"] = str(hashseed)
    p = subprocess.run([sys.executable, "-m", "vlib.props.c12_child"], input=json.dumps({"items": items, "order": order}),
                       capture_output=True, text=True, env=env, cwd=run.HOME, timeout=1800)
    if p.returncode != 0:
        raise RuntimeError("c12 child failed: " + p.stderr[-2000:])
    return json.loads(p.stdout.splitlines()[-1])


def build_items(case):
    rng = random.Random(case["seed"])
    items = []
    if case["kind"] == "convert":
        from coco.b09 import compiler
        from ..gen import peggen

        g = getattr(compiler.grammar, "_real", compiler.grammar)
        for i in range(case["n"]):
            if i % 5 == 4:
                # a sentence derived from the tool's own grammar object (accepted or not: the outcome must not vary)
                text = peggen.PegSampler(g, random.Random(rng.random()), max_depth=18).gen()
                items.append({"kind": "convert", "text": text, "opts": OPTS[i % len(OPTS)]})
                continue
            if i % 3 == 2:
                prog = progs.ProgGen(rng).program()
            else:
                prog = biased_program(rng)
            items.append({"kind": "convert", "text": render(prog), "opts": OPTS[i % len(OPTS)]})
    elif case["kind"] == "literals":
        # constants that compare equal and are not the same constant (0 and -0, 1 and 1.0 and 1E0 and &H1, 255 and &HFF),
        # one program each: what one conversion made of its constant is not what the next one gets for its own
        texts = ["10 X=-0\n", "10 B=0\n", "10 IF A THEN 10\n", "10 X=-0.0:Y=0.0\n", "10 X=0.0:Y=-0.0\n", "10 X=-.0\n", "10 X=-1E-400\n", "10 X=1\n", "10 X=1.0\n",
                 "10 X=1E0\n", "10 X=&H1\n", "10 X=01\n", "10 X=255:Y=&HFF\n", "10 X=&HFF:Y=255\n", "10 DATA -0,0,1,1.0,&H1\n20 READ A,B,C,D,E\n",
                 "10 DATA 0,-0,,1\n20 READ A,B,C,D\n", "10 A$=\"1\":B$=\"1.0\":C$=\"-0\"\n", "10 X=.5:Y=0.5:Z=5E-1\n", "10 FOR I=-0 TO 0 STEP 1.0:NEXT\n",
                 "10 X=32768:Y=&H8000:Z=-32768\n", "10 DIM A(1),B(1.0),C(&H1)\n", "10 ON 1.0 GOTO 10\n20 ON 1 GOTO 10\n"]
        for i in range(case["n"]):
            items.append({"kind": "convert", "text": texts[rng.randrange(len(texts))] if i >= len(texts) else texts[i],
                          "opts": [{}, {"initialize_vars": True}, {"output_dependencies": True, "procname": "p"}][(i // len(texts)) % 3]})
    elif case["kind"] == "limits":
        # programs near what the tool can still digest, interleaved with programs it refuses: whether a program is
        # converted or refused may not depend on what was refused before it
        fails = ["10 GOTO 20\n", "32700 A=1\n", "10 ON ERR GOTO 10:ON ERR GOTO 10\n", "10 A=\n", "10 NEXT\n20 GOTO 99\n"]
        for i in range(case["n"]):
            if i % 3 == 0:
                items.append({"kind": "convert", "text": fails[(i // 3) % len(fails)], "opts": {}})
            elif i % 3 == 1:
                d = 100 + 17 * (i // 3) + rng.randint(0, 9)
                items.append({"kind": "convert", "text": "10 A=" + "(" * d + "1" + ")" * d + "\n", "opts": {}})
            else:
                d = 250 + 60 * (i // 3) + rng.randint(0, 30)
                items.append({"kind": "convert", "text": "10 A=B" + "+B" * d + "\n", "opts": {}})
    elif case["kind"] == "sharedcfg":
        names = ["N$", "L$()", "T$", "M$", "Q$()"]
        for i in range(case["n"]):
            dims = rng.sample(names, rng.randint(1, 4))
            ents = ",".join(nm.replace("()", "(%d)" % rng.randint(1, 5)) for nm in dims)
            text = "10 DIM %s\n20 %s=\"X\"\n" % (ents, dims[0].replace("()", "(1)"))
            if i % 3 == 1:
                # the same names as arrays the source never DIMensions, under a size map of the item's own, under the shared
                # one, or under none: sizes configured for one conversion are not sizes of the next
                a1, a2 = rng.sample(["L$", "Q$", "B$"], 2)
                text = "10 %s(1)=\"X\":%s(2)=%s(1)\n20 PRINT %s(2)\n" % (a1, a2, a1, a2)
                it = {"kind": "convert", "text": text, "opts": {"default_str_storage": rng.choice([32, 64, 80]), "initialize_vars": i % 2 == 0}}
                which = (i // 3) % 3
                if which == 0:
                    it["cfg"] = {a1 + "()": rng.choice([100, 200]), a2 + "()": 150}
                elif which == 1:
                    it["shared_cfg"] = True
                items.append(it)
                continue
            items.append({"kind": "convert", "text": text, "shared_cfg": True,
                          "opts": {"default_str_storage": rng.choice([32, 64, 80, 200]), "initialize_vars": i % 2 == 0}})
    elif case["kind"] == "cli":
        # command-line runs with per-name size maps: the same config path with different contents from item to item
        names = ["A$", "B$", "S$()", "N$", "T$()"]
        for i in range(case["n"]):
            dims = rng.sample(names, rng.randint(1, 4))
            ents = ",".join(nm.replace("()", "(%d)" % rng.randint(1, 5)) for nm in dims)
            text = "10 DIM %s\n20 %s=\"X\"\n30 PRINT \"%d\"\n" % (ents, dims[0].replace("()", "(1)"), i)
            cfg = None
            if i % 4 != 3:
                m = {nm: rng.choice([5, 40, 100, 200]) for nm in rng.sample(names, rng.randint(1, 4))}
                cfg = "string_configs:\n  strname_to_size:\n" + "".join("    %s: %d\n" % (k, v) for k, v in sorted(m.items()))
            flags = [[], ["-l"], ["-z"], ["-s", "64"], ["-D"], ["-w", "-z"]][i % 6]
            it = {"kind": "cli", "text": text, "cfg": cfg, "flags": flags}
            if i % 3 == 2:
                # output on standard output, input file names that do and do not make a legal procedure name
                it["to_stdout"] = True
                it["stem"] = ["prog", "star trek", "demo.v2", "ok-name_1", "9", "x y"][(i // 3) % 6]
            items.append(it)
    else:
        from ..img import workload

        items = workload.determinism_items(rng, case["n"])
    return items


def first_diff_class(a, b):
    la, lb = a.split("\n"), b.split("\n")
    for x, y in zip(la, lb):
        if x != y:
            w = (x.strip().split() or ["?"])
            if w[0].isdigit() and len(w) > 1:
                w = w[1:]
            kw = w[0].upper()
            if kw == "DIM" and "arr_" in x:
                return "implicit-array-DIM-order"
            if kw == "DIM":
                return "DIM-order"
            if kw == "PROCEDURE":
                return "procedure-order"
            return "line:" + kw[:12]
    return "length"


def run_pipes(case):
    """The same bytes through a pipe, written in one piece and in several with pauses between them: same picture."""
    import hashlib
    from . import c18, c19

    fmt, variant = case["fmt"], case["variant"]
    data, args, ctrl = c19.base_file(fmt, variant)
    L = len(data)
    patterns = {"whole": [], "halves": [L // 2], "first-byte": [1], "last-byte": [L - 1], "thirds": [L // 3, 2 * L // 3], "header": [5, 18]}
    obs = {"counters": {"pipe_runs": 0}, "viols": [], "sets": {}, "key": "pipes|%s|%s" % (fmt, variant)}
    seen = {}
    for nm, cuts in patterns.items():
        r = c18.piped_chunked(fmt, data, args, [c for c in cuts if 0 < c < L])
        obs["counters"]["pipe_runs"] += 1
        seen[nm] = (r["rc"], hashlib.sha256(r["out"] or b"").hexdigest()[:16], len(r["out"] or b""))
    obs["evaluations"] = len(patterns)
    if len(set(seen.values())) > 1:
        obs["viols"].append({"sig": "C12/%s/pipe-write-pattern" % fmt, "detail": {"format": fmt, "variant": variant, "args": args, "input_bytes": L,
                                                                                  "outcomes": {k: list(v) for k, v in seen.items()}}})
    return obs


def run_case(case):
    if case["kind"] == "pipes":
        return run_pipes(case)
    items = build_items(case)
    obs = {"counters": {}, "viols": [], "key": [hashlib.sha1(json.dumps(it, sort_keys=True).encode()).hexdigest() for it in items]}
    seeds = case["hashseeds"]
    results = {}
    for hs in seeds:
        results[("seed", hs)] = child(items, hs)
        obs["counters"]["fresh_processes"] = obs["counters"].get("fresh_processes", 0) + 1
    # different history: reversed order of conversions in one process
    order = list(range(len(items)))[::-1]
    results[("reversed", seeds[0])] = child(items, seeds[0], order)
    obs["counters"]["fresh_processes"] += 1
    # repeated calls in this process, shuffled neighbours
    rng = random.Random(case["seed"] + 1)
    local = {}
    if case["kind"] == "limits":
        # programs at the edge of the interpreter's stack: this (deeper) process would reach the edge a few frames
        # earlier than the children, which says nothing about the tool - such batches are compared between children only
        # (a third child, shuffled order)
        idxs = list(range(len(items)))
        rng.shuffle(idxs)
        results[("shuffled", seeds[0])] = child(items, seeds[0], idxs)
        obs["counters"]["fresh_processes"] += 1
        local = {i: {results[("seed", seeds[0])][i]} for i in range(len(items))}
    for rep in range(3 if case["kind"] != "limits" else 0):
        idxs = list(range(len(items)))
        rng.shuffle(idxs)
        for i in idxs:
            hsh = c12_child.run_item(items[i])
            local.setdefault(i, set()).add(hsh)
    ref = results[("seed", seeds[0])]
    accepted = 0
    for i, it in enumerate(items):
        hs_all = {k: v[i] for k, v in results.items()}
        distinct = set(hs_all.values()) | local[i]
        obs["counters"]["outputs_compared"] = obs["counters"].get("outputs_compared", 0) + len(hs_all) + 3
        if len(distinct) > 1:
            where = "hash-seed" if len({v for k, v in hs_all.items() if k[0] == "seed"}) > 1 else (
                "history" if len(set(hs_all.values())) > 1 or len(local[i]) > 1 or (local[i] and next(iter(local[i])) != ref[i]) else "?")
            cls = "?"
            if it["kind"] == "convert":
                # find two differing outputs for the diagnosis
                outs = {}
                for hs in seeds[:6]:
                    env = dict(os.environ)
                    env["PYTHONHASHSEED"] = str(hs)
                    code = ("import json,sys;from vlib import boot;boot.assert_repo();from vlib import harness;"
                            "it=json.load(sys.stdin);r=harness.convert(it['text'],**it['opts']);print(json.dumps(r.get('out')))")
                    p = subprocess.run([sys.executable, "-c", code], input=json.dumps(it), capture_output=True, text=True,
                                       env=env, cwd=run.HOME, timeout=300)
                    try:
                        outs[hs] = json.loads(p.stdout.splitlines()[-1])
                    except Exception:  # noqa: BLE001
                        pass
                vals = [v for v in outs.values() if isinstance(v, str)]
                for v in vals[1:]:
                    if v != vals[0]:
                        cls = first_diff_class(vals[0], v)
                        break
            obs["viols"].append({"sig": "C12/%s/%s/%s" % (it["kind"] if it["kind"] in ("convert", "cli") else it["fmt"], where, cls),
                                 "detail": {"item": {k: (v if k != "hex" else v[:80]) for k, v in it.items()},
                                            "hashes": {str(k): v for k, v in hs_all.items()}, "local": sorted(local[i])}})
    obs["evaluations"] = len(items) * (len(results) + 3)
    if case.get("sample"):
        it = items[0]
        obs["sample"] = {"item": {k: (v if k != "hex" else v[:60] + "...") for k, v in it.items()},
                         "hash_seeds": seeds, "sha256": ref[0]}
    return obs


def cases(tier, seed):
    nb = 8 if tier == "quick" else 64
    hseeds = [0, 1, 2, 3, 5, 7, 11, 13] if tier == "quick" else list(range(32))
    for b in range(nb):
        yield {"kind": "convert", "seed": seed * 100003 + b, "n": 40, "hashseeds": hseeds, "sample": b == 0}
    for b in range(1 if tier == "quick" else 6):
        yield {"kind": "literals", "seed": seed * 100109 + b, "n": 44, "hashseeds": hseeds[:3], "sample": False}
    for b in range(1 if tier == "quick" else 6):
        yield {"kind": "limits", "seed": seed * 100081 + b, "n": 45, "hashseeds": hseeds[:2], "sample": False}
    for b in range(1 if tier == "quick" else 8):
        yield {"kind": "sharedcfg", "seed": seed * 100069 + b, "n": 24, "hashseeds": hseeds[:3], "sample": False}
    for b in range(1 if tier == "quick" else 8):
        yield {"kind": "cli", "seed": seed * 100057 + b, "n": 24, "hashseeds": hseeds[:3], "sample": False}
    for fmt, variant in (("pix", "small"), ("hrs", "small"), ("hrs", "default"), ("max", "hdr5"), ("max", "newsroom"), ("mge", "rle"), ("mge", "raw"),
                         ("rat", "rows"), ("cm3", "one-coded"), ("vef", "t0s")):
        yield {"kind": "pipes", "fmt": fmt, "variant": variant, "seed": 0, "hashseeds": [0]}
    for b in range(2 if tier == "quick" else 8):
        yield {"kind": "decode", "seed": seed * 100019 + b, "n": 12, "hashseeds": hseeds[:4], "sample": b == 0}
