"""C09 - distinct source variables stay distinct; the same variable stays the same.
Identifier monitor: the emitted identifier of every occurrence (read off the reference parser's tree at the
position the generator knows) must be the Color BASIC identity of the source name: first two characters +
type suffix + kind prefix."""
import itertools
import random
import string

from .. import harness
from ..b09ref import static
from ..cbref.ast import render
from ..cbref.interp import canon
from ..gen import exprs as X

PROPERTY = "C09"
LEVEL = "exploration"
RULE = ("all 962 one- and two-character names, each in all four kinds (numeric/string scalar/array) and nine positions "
        "(assignment target, expression operand, FOR and NEXT variable, READ and INPUT target, DIM entry, VARPTR argument, "
        "subscript) in one program per name (exhaustive); pair programs for 3-4 character names that share / differ in the "
        "third or fourth character; distinct = name (pair); non-trivial = the tool accepted the program and identifiers were compared")
ASSUMPTIONS = ["two-letter names that are BASIC09 reserved words (IF ON OR TO DO PI SQ) are skipped: the README tells users to avoid them",
               "names the tool refuses because they start with one of its keywords are counted as refused"]
REQUIRED_COUNTERS = ["identifiers_checked"]
EXHAUSTIVE = {"quick": True, "thorough": True}

CB_KEYWORDS = ["TO", "IF", "ON", "OR", "FN", "GO", "LET", "AND", "NOT", "END", "FOR", "DIM", "REM", "RUN", "CLS", "NEW", "SET", "PUT", "GET",
               "SGN", "INT", "ABS", "POS", "RND", "SIN", "COS", "TAN", "ATN", "LOG", "EXP", "SQR", "LEN", "VAL", "ASC", "STR", "CHR", "MID",
               "MEM", "USR", "TAB", "DEF", "CSAVE", "SKIPF", "PEEK", "POKE", "STEP", "THEN", "ELSE", "NEXT", "DATA", "READ", "STOP", "LIST",
               "CONT", "EXEC", "OPEN", "LINE", "PSET", "DRAW", "PLAY", "DLOAD", "TRON", "EDIT", "HEX", "FIX", "OFF", "SUB", "BRK", "ERR", "RGB",
               "CMP", "ATTR", "HSET", "HPUT", "HGET"]
B09_RESERVED2 = {"IF", "ON", "OR", "TO", "DO", "PI", "SQ"}
GENERATED = {"display", "play", "pid", "erno", "errnum", "joy0x", "joy0y", "joy1x", "joy1y"}


KINDS4 = ("ns", "ss", "na", "sa")


def name_program(nm, mask=15, dim=True):
    """mask selects which of the four variables built on the name (numeric/string scalar/array) occur at all: with a
    subset, an identifier of an absent kind showing up in the output is an identity error."""
    N, S = nm, nm + "$"
    v = lambda n: ("var", n)
    a = lambda n, i: ("arr", n, [i])
    one, two = X.num(1), X.num(2)
    ns, ss, na, sa = [bool(mask & (1 << i)) for i in range(4)]
    idx = v(N) if ns else one
    L = []

    def line(num, *stmts):
        st = [x for x in stmts if x is not None]
        if st:
            L.append((num, st))

    dims = ([(N, [5], ["5"])] if na else []) + ([(S, [5], ["5"])] if sa else [])
    if not dim:
        dims = []       # the arrays are never DIMensioned (implicit 0..10)
    else:
        # the scalars of the same name may be listed in the same DIM statement, before, between or after the arrays
        sc = ([(N, [], [])] if ns else []) + ([(S, [], [])] if ss else [])
        k = (len(nm) + mask) % 4
        if k == 1:
            dims = sc + dims
        elif k == 2:
            dims = dims + sc
        elif k == 3:
            dims = dims[:1] + sc + dims[1:]
    line(10, ("dim", dims) if dims else None)
    line(20, ("let", v(N), one, False) if ns else None, ("let", v(S), ("str", "A"), False) if ss else None)
    line(30, ("let", a(N, one), ("bin", "+", v(N) if ns else two, a(N, two)), False) if na else None,
         ("let", a(S, one), ("bin", "+", v(S) if ss else ("str", "Z"), a(S, two)), False) if sa else None)
    if ns:
        line(40, ("for", N, one, two, None), ("next", [N]))
        line(45, ("for", N, one, two, None), ("for", "QA", one, two, None), ("for", "QB", one, two, None), ("next", ["QB", "QA"]), ("next", []))
    else:
        line(45, ("for", "QA", one, two, None), ("for", "QB", one, two, None), ("next", ["QB", "QA"]))
    rd = ([v(N)] if ns else []) + ([v(S)] if ss else []) + ([a(N, idx)] if na else []) + ([a(S, idx)] if sa else [])
    line(50, ("read", rd))
    inp = ([v(N)] if ns else []) + ([v(S)] if ss else [])
    line(60, ("input", None, inp, False) if inp else None)
    line(70, ("let", v("Q"), ("fn", "VARPTR", [v(N)]), False) if ns else None,
         ("let", v("Q"), ("fn", "VARPTR", [v(S)]), False) if ss else None,
         ("let", v("Q"), ("fn", "VARPTR", [a(N, one)]), False) if na else None,
         ("let", v("Q"), ("fn", "VARPTR", [a(S, one)]), False) if sa else None)
    pr = []
    for x in ([v(N)] if ns else []) + ([v(S)] if ss else []) + ([a(N, two)] if na else []) + ([a(S, two)] if sa else []):
        pr += [("e", x), ("sep", ";")]
    line(80, ("let", v("Q"), ("fn", "LEN", [v(S) if ss else ("str", "AB")]), False), ("print", pr[:-1], None))
    if ns:
        # two run-translated calls on the right, the target read only inside the second: the tool's temporaries must
        # stay apart from the user's variable
        line(85, ("let", v(N), ("bin", "+", ("fn", "INT", [v("Q")]), ("fn", "INT", [v(N)])), False))
    if ss:
        line(86, ("let", v(S), ("bin", "+", ("fn", "STR$", [v("Q")]), ("fn", "LEFT$", [v(S), ("fn", "INT", [one])])), False))
    data = []
    for t in rd:
        data.append(("u", "A") if t[1].endswith("$") else ("n", 1.0, ["1"]))
    line(90, ("data", data))
    return L


def expected_ids(nm, mask):
    c = canon(nm).lower()
    four = [c, c + "$", "arr_" + c, "arr_" + c + "$"]
    return {four[i] for i in range(4) if mask & (1 << i)} | {"q", "qa", "qb"}


def identifiers(out):
    procs, err = harness.parse_b09(out)
    if procs is None:
        return None
    main = procs[-1]
    inf = static.analyse(main)
    ids = set()
    for name, idx, nsub, fld in inf.uses:
        ids.add(name)
    for name, dims, ty, kind, idx in inf.decls:
        ids.add(name)
    return ids, inf, main


def shared_temporary(main, obs):
    """Two values, two temporaries: within one emitted line, in a run of READ / RUN statements (the calls hoisted out of
    one source statement, the items a READ parks in temporaries) no temporary is written a second time before anything
    has read its first value.  -> the identifier written twice, or None"""
    by_line = {}
    for st in main.body:
        by_line.setdefault(st.line, []).append(st)
    for ln_, sts in by_line.items():
        pending = set()
        for st in sts:
            if st.k == "read":
                for a in st.targets:
                    if a[0] == "ref" and not a[2] and a[1].startswith("tmp_"):
                        obs["counters"]["temporary_writes_checked"] = obs["counters"].get("temporary_writes_checked", 0) + 1
                        if a[1] in pending:
                            return a[1]
                        pending.add(a[1])
                continue
            if st.k != "run" or not st.args:
                pending = set()
                continue
            ins = set()
            for a in st.args[:-1]:
                static.walk(a, lambda x: ins.add(x[1]) if x[0] == "ref" else None)
            last = st.args[-1]
            if last[0] == "ref" and last[2]:
                subs = set()                                 # subscripts of the output argument are inputs
                static.walk(last, lambda x: subs.add(x[1]) if x[0] == "ref" else None)
                ins |= subs - {last[1]}
            pending -= ins
            if last[0] == "ref" and not last[2] and last[1].startswith("tmp_"):
                obs["counters"]["temporary_writes_checked"] = obs["counters"].get("temporary_writes_checked", 0) + 1
                if last[1] in pending:
                    return last[1]
                pending.add(last[1])
    return None


def run_case(case):
    obs = {"counters": {}, "viols": [], "sets": {}}
    if case["kind"] == "optnames":
        # options of convert() this harness does not know (a keyword parameter added tomorrow): whatever they do, a source
        # variable whose spelling equals one of the tool's own identifiers (PID, DISPLAY) must not become that identifier
        import re

        text = '10 PID=7:DISPLAY=3\n20 HBUFF 1,10:HGET(0,0)-(1,1),1\n30 PRINT PID;DISPLAY\n'
        obs["key"] = "optnames|%s" % case["option"]
        conv = harness.convert(text, **{case["option"]: True})
        if not conv["ok"]:
            obs["nontrivial"] = False
            obs["counters"]["refused" if conv["documented"] else "internal_error"] = 1
            return obs
        obs["counters"]["identifiers_checked"] = 2
        obs["counters"]["unknown_options_tried"] = 1
        hits = [m for m in re.findall(r"(?im)\b(pid|display)\b\s*:=\s*(7|3)(?:\.0)?\b", conv["out"])]
        if hits:
            obs["viols"].append({"sig": "C09/collides-with-generated/under-option", "detail": {"option": case["option"], "source": text, "assignments": hits,
                                                                                           "emitted": "\n".join(conv["out"].split("\n")[-8:])}})
        return obs
    if case["kind"] == "nextid":
        # loops that are closed out of textual order (NEXT of an outer variable, the 'IF .. THEN NEXT I: GOTO' idiom): legal
        # Color BASIC whose BASIC09 form may well be ill-formed (C07 lists that) - but whatever is emitted, every named NEXT
        # names the variable the source names, in the same order
        import re

        text = case["text"]
        obs["key"] = "nextid|" + text
        conv = harness.convert(text, initialize_vars=case.get("init", False))
        if not conv["ok"]:
            obs["nontrivial"] = False
            obs["counters"]["refused" if conv["documented"] else "internal_error"] = 1
            return obs
        want = [canon(v).lower() for grp in re.findall(r"NEXT ?([A-Z][A-Z0-9]*(?: ?, ?[A-Z][A-Z0-9]*)*)", text) for v in re.split(r" ?, ?", grp)]
        body = conv["out"][conv["out"].find("play.dot"):]
        got = [m.lower() for m in re.findall(r"(?i)\bNEXT ([A-Za-z][A-Za-z0-9_]*)", body)]
        obs["counters"]["identifiers_checked"] = len(got)
        obs["counters"]["next_sequences_checked"] = 1
        if got != want:
            obs["viols"].append({"sig": "C09/for-next/next-names-another-variable", "detail": {"source": text, "source_next": want, "emitted_next": got,
                                                                                               "emitted": "\n".join(conv["out"].split("\n")[-8:])}})
        return obs
    if case["kind"] == "readtmp":
        # READ through the empty-item filter parks every item in a string temporary until its filter call has run; calls
        # hoisted out of a target's subscript need temporaries of their own
        text = case["text"]
        obs["key"] = "readtmp|" + text
        conv = harness.convert(text, initialize_vars=case.get("init", False))
        if not conv["ok"]:
            obs["nontrivial"] = False
            obs["counters"]["refused" if conv["documented"] else "internal_error"] = 1
            return obs
        r = identifiers(conv["out"])
        if r is None:
            obs["nontrivial"] = False
            obs["counters"]["unparseable_output"] = 1
            return obs
        ids, inf, main = r
        obs["counters"]["identifiers_checked"] = len(ids)
        hit = shared_temporary(main, obs)
        if hit:
            obs["viols"].append({"sig": "C09/temporary-shared-by-two-values", "detail": {"source": text, "identifier": hit,
                                                                                        "emitted": "\n".join(conv["out"].split("\n")[-4:])}})
        return obs
    if case["kind"] == "name":
        nm = case["name"]
        obs["key"] = "name|%s|%d|%s|%s|%s" % (nm, case.get("mask", 15), case.get("dim", True), case.get("storage", 32), case.get("layout", 1))
        mask = case.get("mask", 15)
        prog = name_program(nm, mask, case.get("dim", True))
        # identity may not depend on how many blanks stand around a name: single (canonical), none, or two at every gap
        lay = case.get("layout", 1)
        text = render(prog) if lay == 1 else render(prog, blanks=lambda i, g: lay if g in ("soft", "req") else 0)
        conv = harness.convert(text, initialize_vars=case.get("init", False), default_str_storage=case.get("storage", 32))
        if not conv["ok"]:
            obs["nontrivial"] = False
            obs["counters"]["refused" if conv["documented"] else "internal_error"] = 1
            obs["sets"]["refused_names"] = [nm]
            return obs
        r = identifiers(conv["out"])
        c = canon(nm).lower()
        expected = expected_ids(nm, mask)
        all4 = expected_ids(nm, 15)
        if r is None:
            procs0, perr = harness.parse_b09(conv["out"])
            if perr and "closes FOR" in (perr.get("msg") or "") or (perr and "NEXT" in (perr.get("msg") or "")):
                obs["counters"]["identifiers_checked"] = 1
                obs["viols"].append({"sig": "C09/for-next/variable-mismatch", "detail": {"name": nm, "error": perr, "source": text[:400]}})
                return obs
            if canon(nm) not in B09_RESERVED2:
                obs["nontrivial"] = False
                obs["counters"]["unparseable_output"] = 1
                return obs
            # the name is a BASIC09 reserved word, so the reference parser rejects the text; identity is then
            # read off lexically: every identifier-like token built on the name must be one of the four expected
            import re

            body = "\n".join(ln for ln in conv["out"].split("\n")
                             if not (ln.lower().startswith(("type ", "dim display", "dim play", "dim erno", "play.", "erno", "base ")) or "_ecb_start" in ln))
            body = re.sub(r'"[^"]*"', '""', body)
            toks = set(t.lower() for t in re.findall(r"[A-Za-z_][A-Za-z0-9_]*\$?", body))
            ids = {t for t in toks if t.startswith(c) or t.startswith("arr_" + c)} | {"q", "qa", "qb"}
            ids = {t for t in ids if t in expected or len(t.rstrip("$").replace("arr_", "")) <= 4}
            obs["counters"]["lexical_identity_checks"] = 1
        else:
            ids, inf, main = r
        user = {i for i in ids if not (i in GENERATED or i.startswith("tmp_") or i in ("display", "play"))}
        obs["counters"]["identifiers_checked"] = len(user)
        extra = user - expected
        missing = expected - user
        detail = {"name": nm, "source": text[:500], "emitted": "\n".join(conv["out"].split("\n")[-16:])}
        if extra:
            obs["viols"].append({"sig": "C09/unexpected-identifier/" + ("long" if any(len(x.replace("arr_", "").rstrip("$")) > 2 for x in extra) else "other"),
                                 "detail": dict(detail, extra=sorted(extra), expected=sorted(expected))})
        if missing:
            obs["viols"].append({"sig": "C09/identity-lost/" + ("array" if any(m.startswith("arr_") for m in missing) else "scalar"),
                                 "detail": dict(detail, missing=sorted(missing))})
        if r is not None:
            # class consistency at the positions the generator knows: a text literal is only ever assigned to a $ name
            # and a number only to a name without $ (an initialisation loop writing into the wrong one of the four
            # variables built on a name is an identity error even when all four exist)
            for st in main.body:
                if st.k == "assign" and st.e[0] in ("str", "num") and st.lv[1] in all4:
                    obs["counters"]["literal_assignments_checked"] = obs["counters"].get("literal_assignments_checked", 0) + 1
                    if (st.e[0] == "str") != st.lv[1].endswith("$"):
                        obs["viols"].append({"sig": "C09/wrong-class-target/" + ("array" if st.lv[2] else "scalar"),
                                             "detail": dict(detail, target=st.lv[1], value=st.e[:2])})
                        break
        if r is not None:
            # one identifier, one kind: never declared both with and without dimensions, never declared as a scalar
            # and used with subscripts (or the reverse)
            kinds = {}
            for name, dims, ty, kind, idx in inf.decls:
                if name in all4:
                    kinds.setdefault(name, set()).add("array" if dims else "scalar")
            for name, idx, nsub, fld in inf.uses:
                if name in all4 and fld is None:
                    kinds.setdefault(name, set()).add("array" if nsub else "scalar")
            if case.get("dim", True):
                # the array DIMensioned in the source is the array that is used: same identifier, the source's bound
                for name, dims, ty, kind, idx in inf.decls:
                    if name in all4 and name.startswith("arr_") and tuple(dims) != (6,):
                        obs["viols"].append({"sig": "C09/dimensioned-array-replaced", "detail": dict(detail, identifier=name, dims=list(dims))})
                        break
            # a user variable is never the tool's scratch space: within one emitted line, a RUN may not deposit its
            # result in a user variable that a later RUN of the same line still reads as input
            by_line = {}
            for st in main.body:
                by_line.setdefault(st.line, []).append(st)
            for ln_, sts in by_line.items():
                written = set()
                hit = None
                for st in sts:
                    if st.k != "run" or not st.args:
                        continue
                    ins = set()
                    for a in st.args[:-1]:
                        static.walk(a, lambda x: ins.add(x[1]) if x[0] == "ref" else None)
                    if ins & written:
                        hit = sorted(ins & written)
                        break
                    last = st.args[-1]
                    if last[0] == "ref" and not last[2] and last[1] in all4 and not last[1].startswith("arr_"):
                        written.add(last[1])
                if hit:
                    obs["viols"].append({"sig": "C09/user-variable-used-as-temporary", "detail": dict(detail, identifiers=hit)})
                    break
            hit = shared_temporary(main, obs)
            if hit:
                obs["viols"].append({"sig": "C09/temporary-shared-by-two-values", "detail": dict(detail, identifier=hit)})
            # the numeric and the string array of one name are two arrays to every pass: when the program uses both, a
            # declaration for one of them only means a pass keyed them by the bare name
            used_arr = {name for name, idx, nsub, fld in inf.uses if name in all4 and name.startswith("arr_") and nsub}
            decl_arr = {name for name, dims, ty, kind, idx in inf.decls if name in all4 and name.startswith("arr_")}
            pair_ = {"arr_" + c, "arr_" + c + "$"}
            if pair_ <= used_arr:
                obs["counters"]["array_pair_checks"] = obs["counters"].get("array_pair_checks", 0) + 1
                if len(pair_ & decl_arr) == 1:
                    obs["viols"].append({"sig": "C09/arrays-of-one-name-declared-as-one", "detail": dict(detail, declared=sorted(pair_ & decl_arr), used=sorted(pair_))})
            both = sorted(nm2 for nm2, ks in kinds.items() if len(ks) > 1)
            obs["counters"]["kind_checks"] = len(kinds)
            if both:
                obs["viols"].append({"sig": "C09/kind-collision/" + ("array-identifier" if both[0].startswith("arr_") else "scalar-identifier"),
                                     "detail": dict(detail, identifiers=both)})
        clash = {i for i in user if i.lower() in GENERATED or i.lower().startswith("tmp_")}
        if clash:
            obs["viols"].append({"sig": "C09/collides-with-generated", "detail": dict(detail, clash=sorted(clash))})
        if case.get("sample"):
            obs["sample"] = {"name": nm, "identifiers": sorted(user)}
        return obs
    if case["kind"] == "crunch":
        # crunched listings: a name runs straight into the keyword behind it (FORI=ABCTO9, IFA=ABCTHEN..).  Today most of
        # these are refused or read as one longer name; whatever is accepted must still map the name to its identifier
        nm = case["name"]
        text = case["template"].replace("@", nm)
        obs["key"] = "crunch|%s|%s" % (nm, case["template"])
        conv = harness.convert(text, initialize_vars=case.get("init", False))
        if not conv["ok"]:
            obs["nontrivial"] = False
            obs["counters"]["refused" if conv["documented"] else "internal_error"] = 1
            return obs
        r = identifiers(conv["out"])
        if r is None:
            obs["nontrivial"] = False
            obs["counters"]["unparseable_output"] = 1
            return obs
        ids, inf, main = r
        user = {i for i in ids if not (i in GENERATED or i.startswith("tmp_") or i in ("display", "play"))}
        obs["counters"]["identifiers_checked"] = len(user)
        obs["counters"]["crunched_accepted"] = 1
        # every identifier is a one- or two-character name (no name of the templates is longer after truncation)
        longs = sorted(i for i in user if len(i.replace("arr_", "").rstrip("$")) > 2)
        if longs:
            obs["viols"].append({"sig": "C09/unexpected-identifier/long", "detail": {"source": text, "identifiers": longs,
                                                                                    "emitted": "\n".join(conv["out"].split("\n")[-6:])}})
        return obs
    if case["kind"] == "printarr":
        # an array element inside a PRINT list, with 0-3 blanks between the name and its parenthesis (juxtaposition is
        # legal in PRINT lists, so a name cut loose from its subscript would still parse - as a scalar)
        nm, k, sfx = case["name"], case["blanks"], case["suffix"]
        text = "10 DIM %s%s(5)\n20 PRINT %s%s%s(1);%s%s%s( 2 )\n30 ?%s%s%s(3)\n" % (nm, sfx, nm, sfx, " " * k, nm, sfx, " " * k, nm, sfx, " " * k)
        obs["key"] = "printarr|%s|%s|%d" % (nm, sfx, k)
        conv = harness.convert(text)
        if not conv["ok"]:
            obs["nontrivial"] = False
            obs["counters"]["refused"] = 1
            return obs
        r = identifiers(conv["out"])
        if r is None:
            obs["nontrivial"] = False
            return obs
        ids, inf, main = r
        c = canon(nm).lower()
        user = {i for i in ids if not (i in GENERATED or i.startswith("tmp_"))}
        obs["counters"]["identifiers_checked"] = len(user)
        want = {"arr_" + c + sfx}
        if user != want:
            obs["viols"].append({"sig": "C09/print-list/array-element-split", "detail": {"source": text, "identifiers": sorted(user), "expected": sorted(want),
                                                                                        "emitted": "\n".join(conv["out"].split("\n")[-4:])}})
        return obs
    # pair programs: two names in one program, identity read off known positions
    n1, n2 = case["names"]
    suffix = case["suffix"]
    arr = case["array"]
    obs["key"] = "pair|%s|%s|%s|%s" % (n1, n2, suffix, arr)

    def node(n):
        return ("arr", n + suffix, [X.num(1)]) if arr else ("var", n + suffix)

    lit = ("str", "A") if suffix else X.num(1)
    lit2 = ("str", "B") if suffix else X.num(2)
    prog = [(10, [("let", node(n1), lit, False), ("let", node(n2), lit2, False),
                  ("let", ("var", "R" + suffix), node(n1), False)])]
    text = render(prog)
    conv = harness.convert(text)
    if not conv["ok"]:
        obs["nontrivial"] = False
        obs["counters"]["refused" if conv["documented"] else "internal_error"] = 1
        return obs
    procs, err = harness.parse_b09(conv["out"])
    if procs is None:
        obs["nontrivial"] = False
        return obs
    assigns = [s for s in procs[-1].body if s.k == "assign" and s.lv[1] not in ("erno",) and "." not in s.lv[1] and not s.lv[2][:1] == (("fld",),)]
    assigns = [s for s in assigns if not s.lv[2] or s.lv[2][0][0] == "idx"]
    assigns = [s for s in assigns if s.lv[1] not in ("play", "display")]
    if len(assigns) < 3:
        obs["nontrivial"] = False
        return obs
    i1, i2 = assigns[-3].lv[1], assigns[-2].lv[1]
    same_src = canon(n1 + suffix) == canon(n2 + suffix)
    obs["counters"]["identifiers_checked"] = 2
    obs["counters"]["pairs_same" if same_src else "pairs_distinct"] = 1
    if (i1 == i2) != same_src:
        obs["viols"].append({"sig": "C09/pair/" + ("merged" if i1 == i2 else "split"),
                             "detail": {"names": [n1 + suffix, n2 + suffix], "identifiers": [i1, i2], "source": text, "emitted": conv["out"][-300:]}})
    # the value written under a name is read back under the same identifier
    rd = assigns[-1].e
    if rd[0] == "ref" and rd[1] != i1:
        obs["viols"].append({"sig": "C09/pair/read-differs-from-write", "detail": {"name": n1 + suffix, "written_as": i1, "read_as": rd[1],
                                                                            "source": text, "emitted": conv["out"][-300:]}})
    want = ("arr_" if arr else "") + canon(n1 + suffix).lower()
    if i1 != want:
        obs["viols"].append({"sig": "C09/pair/unexpected-identifier", "detail": {"name": n1 + suffix, "identifier": i1, "want": want}})
    return obs


def cases(tier, seed):
    letters = string.ascii_uppercase
    second = letters + string.digits
    names = list(letters) + [a + b for a in letters for b in second]
    for i, nm in enumerate(names):
        yield {"kind": "name", "name": nm, "init": i % 2 == 0, "sample": i % 300 == 5}
        masks = [1 + (i * 7 + seed) % 14, 1 + (i * 3 + 5 + seed) % 14] if tier == "quick" else range(1, 15)
        for m in masks:
            yield {"kind": "name", "name": nm, "mask": m, "init": (i + m) % 2 == 1, "dim": (i + m) % 3 != 0,
                   "storage": [32, 80, 16][(i * 5 + m) % 7 % 3], "layout": [1, 2, 0, 3][(i * 3 + m) % 4]}
            if tier != "quick":
                yield {"kind": "name", "name": nm, "mask": m, "init": (i + m) % 2 == 0, "dim": (i + m) % 3 == 0,
                       "storage": [80, 16, 32][(i * 5 + m) % 7 % 3]}
    for nm in sorted(B09_RESERVED2):
        # longer spellings of the reserved two-letter names are the same Color BASIC variable
        for tail in ("X", "9", "XY"):
            yield {"kind": "name", "name": nm + tail, "init": False}
    # the tool's own keyword table, and every shorter prefix of its entries, as names: each is either refused or treated
    # like any other name (a word the grammar stops reserving must not lead a double life)
    try:
        from coco.b09 import grammar as _g
        words = sorted({w for w in getattr(_g, "KEYWORDS", "").split("|") if w.isalpha()} |
                       {k for t in ("FUNCTIONS", "STR_FUNCTIONS", "FUNCTIONS_TO_STATEMENTS", "FUNCTIONS_TO_STATEMENTS2", "STR_FUNCTIONS_TO_STATEMENTS")
                        for k in getattr(_g, t, {}) if isinstance(k, str) and k.rstrip("$").isalpha()})
    except Exception:  # noqa: BLE001
        words = []
    words = [w.rstrip("$") for w in words] + ["ERNO", "ERLIN", "TIMER", "MEM", "POS", "USR", "INKEY", "FN", "GO"]
    for w in sorted(set(words)):
        for suffix in ("", "$"):
            yield {"kind": "pair", "names": [w, w[:2]], "suffix": suffix, "array": False, "keyword": True}
            yield {"kind": "pair", "names": [w, w[:2]], "suffix": suffix, "array": True, "keyword": True}
    for i, nm in enumerate(["A", "N", "AB", "Z9", "K", "XY"] if tier == "quick" else names[::7]):
        for k in range(4):
            for sfx in ("", "$"):
                yield {"kind": "printarr", "name": nm, "blanks": k, "suffix": sfx}
    subs = ["LEN(STR$(X))", "LEN(HEX$(X))+LEN(STR$(Y))", "INT(X)", "LEN(STRING$(2,B$))", "INT(X)+LEN(STR$(Y))", "1"]
    k = 0
    for sub in subs:
        for shape in ("B,A(@)", "A(@),B,C", "A(@)", "B,C,A(@)", "A(@),A(@)", "B$,A(@),C"):
            k += 1
            for data in (",1,2", "1,2,3"):
                yield {"kind": "readtmp", "text": "10 DIM A(9)\n20 DATA %s,4\n30 READ %s\n" % (data, shape.replace("@", sub)), "init": k % 2 == 0}
    try:
        import inspect
        from coco.b09 import compiler as _c

        known = {"add_standard_prefix", "add_suffix", "default_width32", "filter_unused_linenum", "initialize_vars", "output_dependencies",
                 "skip_procedure_headers"}
        extra_opts = sorted(k for k, prm in inspect.signature(_c.convert).parameters.items()
                            if k not in known and (prm.default is False or prm.default is True))
    except Exception:  # noqa: BLE001
        extra_opts = []
    for k_ in extra_opts:
        yield {"kind": "optnames", "option": k_}
    for t in ("10 FOR CO=1 TO 2:FOR J=1 TO 2:NEXT CO\n", "10 FOR K=1 TO 2\n20 FOR I=1 TO 3\n30 IF I=2 THEN NEXT I:GOTO 50\n40 NEXT I\n50 NEXT K\n",
              "10 FOR A=1 TO 2:FOR B=1 TO 2:IF B=1 THEN 30\n20 NEXT B,A\n30 NEXT A\n", "10 FOR XA=1 TO 2:FOR XB=1 TO 2:FOR XC=1 TO 2:NEXT XB:NEXT XA\n",
              "10 FOR I=1 TO 2:FOR J=1 TO 2:NEXT J,I\n", "10 FOR I=1 TO 3\n20 IF I=1 THEN NEXT I\n30 PRINT I\n40 NEXT I\n",
              "10 FOR LONG=1 TO 2:FOR LO2=3 TO 4:NEXT LONG\n"):
        for init in (False, True):
            yield {"kind": "nextid", "text": t, "init": init}
    # statements that need more than nine temporaries of one type (two-digit numbering)
    names12 = ["A", "B", "C", "D", "E", "F", "G", "H", "I", "J", "K", "L", "M", "N"]
    for n_ in (10, 11, 12, 14):
        vs = names12[:n_]
        for t in ("10 PRINT " + ";".join(vs) + "\n", "10 Z=" + "+".join("INT(%s)" % v for v in vs) + "\n",
                  "10 Z$=" + "+".join("STR$(%s)" % v for v in vs) + "\n", "10 DATA " + ",".join(["1"] * (n_ - 1)) + ",\n20 READ " + ",".join(vs) + "\n",
                  "10 Z=" + "+".join("LEN(HEX$(%s))" % v for v in vs) + "\n"):
            yield {"kind": "readtmp", "text": t, "init": n_ % 2 == 0}
    crunch = ["10 @=7\n20 FORI=@TO9\n30 NEXT\n", "10 @=7\n20 FORI=1TO@STEP2\n30 NEXT\n", "10 @=7\n20 FORI=1TO9STEP@\n30 NEXT\n",
              "10 IFA=@THEN10\n", "10 IF@THEN10\n", "10 IFA=@GOTO10\n", "10 ON@GOTO10,10\n", "10 ON@GOSUB10\n20 RETURN\n",
              "10 IFA=1THENB=@ELSEB=2\n", "10 IFA=@ORB=@THEN10\n", "10 IFA=@ANDB=1THEN10\n", "10 B=NOT@\n", "10 PRINT@;@TAB(3)\n"]
    for nm in (["A", "AB", "ABC", "ABCD", "XY1", "K9Z", "NAME"] if tier == "quick" else ["A", "AB", "ABC", "ABCD", "XY1", "K9Z", "NAME"] + names[::37]):
        for i, t in enumerate(crunch):
            yield {"kind": "crunch", "name": nm, "template": t, "init": i % 2 == 0}
    rng = random.Random(seed * 31 + 9)
    n = 1500 if tier == "quick" else 250000
    for i in range(n):
        base = rng.choice(letters) + rng.choice(second)
        if base in B09_RESERVED2:
            continue
        k = rng.random()
        if k < 0.4:      # same first two characters, different tail -> same variable
            n1 = base + rng.choice(second) + (rng.choice(second) if rng.random() < 0.5 else "")
            n2 = base + rng.choice(second)
        elif k < 0.6:    # one is the two-character name itself
            n1 = base
            n2 = base + rng.choice(second) + (rng.choice(second) if rng.random() < 0.3 else "")
        elif k < 0.8:    # differ in the second character only
            c2 = rng.choice([c for c in second if c != base[1]])
            n1 = base + rng.choice(second)
            n2 = base[0] + c2 + n1[2:]
        else:            # differ in the first character only
            c1 = rng.choice([c for c in letters if c != base[0]])
            n1 = base + rng.choice(second)
            n2 = c1 + n1[1:]
        if any(k in n for n in (n1, n2) for k in CB_KEYWORDS):
            continue       # Color BASIC tokenises keywords wherever they occur: such spellings are not variable names at all
        yield {"kind": "pair", "names": [n1, n2], "suffix": "$" if i % 2 else "", "array": (i // 2) % 2 == 1}
