"""C18 - decoder output is a complete image file of the advertised size.
Conservation monitor: header parsed by an independent reader, samples written = samples announced, size =
what format / options / header fields dictate; -s N == decoding the input minus its first N bytes;
standard streams == files (real subprocesses with pipes)."""
import math
import os
import random
import subprocess
import sys

from .. import run
from ..img import decoders as D
from ..img import model as M
from ..img import observe

PROPERTY = "C18"
LEVEL = "exploration"
RULE = ("case = well-formed file x option combination: HRS all widths 1..40 x heights 1..12 plus large ones, skips 0..20; "
        "MAX widths (multiples of 8 and others) x 9 modes x {-r, length field, -newsroom} x skips; PIX even sides; the "
        "fixed-size formats in all variants (25 random contents each, thorough); a seeded random sweep of HRS / MAX geometry x header variant x mode x skip (80 quick, 9000 thorough); pipes vs files for the tools that accept them; distinct = (format, geometry, "
        "options); non-trivial = a complete-size verdict was computed")
ASSUMPTIONS = ["a well-formed HRS/MAX input carries ceil(width/pixels-per-byte) bytes per row"]
REQUIRED_COUNTERS = ["size_checks"]


def build(case):
    rng = random.Random(case["seed"])
    fmt = case["fmt"]
    pal = M.rand_palette(rng)
    if case.get("highbits"):
        pal = [v | rng.choice([64, 128, 192]) for v in pal]      # don't-care bits of the palette registers set
    if fmt == "hrs":
        w, h, skip = case["w"], case["h"], case.get("skip", 0)
        pix = M.rand_pixels(rng, w, h, "random")
        args = ["-w", str(w), "-r", str(h)] + (["-s", str(skip)] if skip else [])
        if case.get("defaults"):
            args = [a for a in args if False]
        return M.enc_hrs(pix, pal, w, h, skip), args, (w, h), skip
    if fmt == "max":
        cols, rows, skip = case["cols"], case["rows"], case.get("skip", 0)
        pc = (cols + 7) // 8 * 8
        bits = M.rand_pixels(rng, pc, rows, "random", 2)
        args = list(M.MAX_MODES[case["mode"]])
        how = case["how"]
        if how == "newsroom":
            args.append("-newsroom")
            data = M.enc_max(bits, pc, rows, True, skip)
            cols = pc
        else:
            if cols != 256:
                args += ["-w", str(cols)]
            if how == "rows":
                args += ["-r", str(rows)]
                data = M.enc_max(bits, pc, rows, False, skip, lenfield=rng.randrange(65536))
            else:
                data = M.enc_max(bits, pc, rows, False, skip, lenfield=cols * rows // 8)
        if skip:
            args += ["-s", str(skip)]
        return data, args, (cols, rows), skip
    if fmt == "pix":
        side = case["side"]
        # (pad: bytes behind the picture, as a file copied off a disk in whole sectors has them - too few to make the
        # square any larger)
        return M.enc_pix(M.rand_pixels(rng, side, side, "random"), side) + bytes(rng.randrange(256) for _ in range(case.get("pad", 0))), [], (side, side), 0
    if fmt == "mge":
        pix = M.rand_pixels(rng, 320, 200, case.get("content", "runs"))
        M.MGE_TITLE[0] = case["title"].encode("latin-1") if case.get("title") is not None else None
        try:
            return M.enc_mge(pix, pal, case["rgb"], case["comp"], rng, case.get("preset", "random")), [], (320, 200), 0
        finally:
            M.MGE_TITLE[0] = None
    if fmt == "rat":
        pix = M.rand_pixels(rng, 320, 199, case.get("content", "runs"))
        data, esc = M.enc_rat(pix, pal, rng, case.get("preset", "random"), escape=case.get("escape"))
        if case.get("stretch") and len(data) > 22 and data[-3] == esc:
            # the final run is longer than the picture needs (an encoder that rounds its last run up): still a picture
            # of exactly 320x199
            data = data[:-2] + bytes([255, data[-1]])
        return data, [], (320, 199), 0
    if fmt == "cm3":
        two = case["two"]
        pix = M.rand_pixels(rng, 320, 384 if two else 192, case.get("content", "vrepeat"))
        return M.enc_cm3(pix, pal, two, case["pat"], rng, case["preset"]), [], (320, 384 if two else 192), 0
    if fmt == "vef":
        vt = case["vt"]
        w, h, ncol, rec, ppb = M.VEF_TYPES[vt]
        pix = M.rand_pixels(rng, w, h, case.get("content", "runs"), ncol)
        return M.enc_vef(pix, pal, vt, case["sq"], rng, case.get("preset", "random")), [], (w, h * (2 if w == 640 else 1)), 0
    raise ValueError(fmt)


def piped(fmt, data, args, use_stdin, use_stdout, dash=False):
    """Real subprocess: the decoder reading stdin and/or writing stdout - by leaving the file names out, or (dash) by
    naming '-' for them, which is the only way to combine a piped input with a named output file."""
    d = D.workdir()
    src = os.path.join(d, "pin.%s" % D.EXT[fmt][0])
    dst = os.path.join(d, "pout.%s" % D.EXT[fmt][1])
    with open(src, "wb") as f:
        f.write(data)
    argv = [sys.executable, "-c", "import sys;from vlib import boot;boot.assert_repo();import importlib;"
            "importlib.import_module(%r).start(sys.argv[1:])" % D.MODULES[fmt]] + list(args)
    if dash:
        argv += ["-" if use_stdin else src, "-" if use_stdout else dst]
    elif not use_stdin:
        argv.append(src)
        if not use_stdout:
            argv.append(dst)
    elif not use_stdout:
        return None   # positional grammar: output can only be named after an input
    p = subprocess.run(argv, input=data if use_stdin else None, capture_output=True, cwd=run.HOME, timeout=300)
    out = p.stdout if use_stdout else (open(dst, "rb").read() if os.path.exists(dst) else None)
    for fn in (src, dst):
        try:
            os.remove(fn)
        except OSError:
            pass
    return {"rc": p.returncode, "out": out}


def piped_chunked(fmt, data, args, cuts, pause=0.15):
    """The decoder as a real subprocess reading standard input, the input written in pieces (cut at the offsets `cuts`)
    with a pause after each piece: how a producer happens to time its writes is no part of the picture."""
    import time

    argv = [sys.executable, "-c", "import sys;from vlib import boot;boot.assert_repo();import importlib;"
            "importlib.import_module(%r).start(sys.argv[1:])" % D.MODULES[fmt]] + list(args) + ["-", "-"]
    p = subprocess.Popen(argv, stdin=subprocess.PIPE, stdout=subprocess.PIPE, stderr=subprocess.DEVNULL, cwd=run.HOME)
    pos = 0
    try:
        for c in sorted(set(cuts)) + [len(data)]:
            if c > pos:
                p.stdin.write(data[pos:c])
                p.stdin.flush()
                pos = c
                time.sleep(pause)
        p.stdin.close()
    except (BrokenPipeError, OSError):
        pass
    try:
        out = p.stdout.read()
        rc = p.wait(timeout=120)
    except subprocess.TimeoutExpired:
        p.kill()
        return {"rc": "timeout", "out": None}
    return {"rc": rc, "out": out}


def run_optprobe(case):
    """Option values at and beyond what the parser should accept: either the parser refuses them (argparse exit status 2),
    or - the quantifier says 'all widths, heights and skips the option parser accepts' - a complete image comes out."""
    fmt = case["fmt"]
    obs = {"counters": {"decodes": 1, "size_checks": 1}, "viols": [], "sets": {"formats": [fmt]}}
    rng = random.Random(7)
    pal = M.rand_palette(rng)
    if fmt == "hrs":
        data = M.enc_hrs(M.rand_pixels(rng, 8, 3, "random"), pal, 8, 3)
        base = ["-w", "8", "-r", "3"]
    else:
        data = M.enc_max(M.rand_pixels(rng, 16, 3, "random", 2), 16, 3)
        base = ["-w", "16"]
    args = [a for a in base if a not in case["drop"]] if case.get("drop") else list(base)
    if case.get("drop"):
        it, args = iter(base), []
        for a in it:
            if a in case["drop"]:
                next(it, None)
                continue
            args.append(a)
    args += case["extra"]
    obs["key"] = "optprobe|%s|%s" % (fmt, " ".join(args))
    res = D.decode(fmt, data, args)
    cl = observe.classify(fmt, res)
    refused_by_parser = res["status"] == "exit" and res.get("code") == 2
    if case.get("overask"):
        # a geometry that asks for more than the file holds: a valid option value, an inconsistent request - the decoder may
        # fail (and say so) or produce a complete image of what it announces, but not a header with too few samples behind it
        obs["counters"]["overask_probes"] = 1
        if cl["kind"] in ("incomplete", "garbage"):
            obs["viols"].append({"sig": "C18/%s/geometry-beyond-the-data/incomplete-image" % fmt,
                                 "detail": {"args": args, "status": res["status"], "outcome": {k: v for k, v in cl.items() if k not in ("img", "png")}}})
        return obs
    if not refused_by_parser and cl["kind"] != "complete":
        obs["viols"].append({"sig": "C18/%s/option-value-accepted-without-image" % fmt,
                             "detail": {"args": args, "status": res["status"], "exc": res.get("exc"), "outcome": cl["kind"]}})
    obs["counters"]["parser_refusals" if refused_by_parser else "accepted_option_probes"] = 1
    return obs


def run_case(case):
    if case.get("optprobe"):
        return run_optprobe(case)
    fmt = case["fmt"]
    obs = {"counters": {"decodes": 1}, "viols": [], "sets": {"formats": [fmt]}}
    data, args, size, skip = build(case)
    obs["key"] = "%s|%s|%s|%s|%s" % (fmt, size, " ".join(args), case.get("content"), str(case.get("preset")) + ("+stretch" if case.get("stretch") else "") + ("+highbits" if case.get("highbits") else "") + ("+esc%d" % case["escape"] if case.get("escape") is not None else "") + ("+ext%s" % case["in_ext"] if case.get("in_ext") is not None else "") + ("+pad%d" % case["pad"] if case.get("pad") else "") + ("+title%r" % case["title"] if case.get("title") is not None else ""))
    res = D.decode(fmt, data, args, in_ext=case.get("in_ext"))
    cl = observe.classify(fmt, res)
    detail = {"case": case, "args": args, "input_bytes": len(data), "expected_size": size}
    obs["counters"]["size_checks"] = 1
    variant = fmt
    if fmt == "max":
        variant = "max/width-not-multiple-of-8" if case["cols"] % 8 else "max/%s" % case["how"]
    if cl["kind"] != "complete":
        obs["viols"].append({"sig": "C18/%s/%s" % (variant, cl["kind"]),
                             "detail": dict(detail, outcome={k: v for k, v in cl.items() if k not in ("img", "png")})})
        return obs
    if tuple(cl["size"]) != tuple(size):
        obs["viols"].append({"sig": "C18/%s/wrong-size" % variant, "detail": dict(detail, announced=cl["size"])})
        return obs
    if res["extra_files"]:
        obs["viols"].append({"sig": "C18/%s/stray-files" % fmt, "detail": dict(detail, files=res["extra_files"])})
    if skip:
        # skipping N bytes == decoding the input with its first N bytes removed
        args2 = []
        it = iter(args)
        for a in it:
            if a == "-s":
                next(it)
                continue
            args2.append(a)
        res2 = D.decode(fmt, data[skip:], args2)
        obs["counters"]["skip_equivalence_checks"] = 1
        if res2["out"] != res["out"]:
            obs["viols"].append({"sig": "C18/%s/skip-not-equal-to-prefix-removal" % fmt, "detail": detail})
    if case.get("pipes"):
        for use_in, use_out, dash in ((True, True, False), (False, True, False), (True, False, True), (False, True, True), (True, True, True)):
            if fmt == "pix" and use_in:
                continue
            r = piped(fmt, data, args, use_in, use_out, dash)
            if r is None:
                continue
            for stray in ("-",):
                sp = os.path.join(run.HOME, stray)
                if os.path.exists(sp):
                    os.remove(sp)
                    obs["viols"].append({"sig": "C18/%s/stray-file-named-dash" % fmt, "detail": dict(detail, stdin=use_in, stdout=use_out)})
            obs["counters"]["pipe_runs"] = obs["counters"].get("pipe_runs", 0) + 1
            if r["rc"] != 0 or r["out"] != res["out"]:
                obs["viols"].append({"sig": "C18/%s/pipes-differ-from-files" % fmt,
                                     "detail": dict(detail, stdin=use_in, stdout=use_out, dash=dash, rc=r["rc"],
                                                    out_len=len(r["out"] or b""), file_len=len(res["out"] or b""))})
    if case.get("sample"):
        obs["sample"] = {"format": fmt, "args": args, "input_bytes": len(data), "announced_size": list(cl["size"])}
    return obs


def cases(tier, seed):
    q = tier == "quick"
    n = 0

    def c(**kw):
        nonlocal n
        n += 1
        kw["seed"] = seed * 15485863 + n
        kw["sample"] = n % 400 == 1
        return kw

    for w in range(1, 41):
        for h in range(1, 13):
            if q and (w * 7 + h) % 4:
                continue
            yield c(fmt="hrs", w=w, h=h)
    for w, h in ((320, 192), (319, 3), (640, 2), (1000, 1), (1, 300)):
        yield c(fmt="hrs", w=w, h=h, pipes=(w == 319))
    for fmt in ("hrs", "max"):
        for extra in (["-s", "-1"], ["-s", "-2"], ["-s", "0"], ["-s", "1.5"], ["-s", "x"], ["-s", "-0"], ["-s", " 0"]):
            yield {"fmt": fmt, "optprobe": True, "extra": extra}
        for opt in ("-w", "-r"):
            for v in ("0", "-1", "-8", "1.5", "", "x", "-0"):
                yield {"fmt": fmt, "optprobe": True, "drop": [opt], "extra": [opt, v]}
        for opt, vals in (("-r", ("4", "5", "100", "193", "1000")), ("-w", ("24", "32", "512", "1024"))):
            for v in vals:
                yield {"fmt": fmt, "optprobe": True, "overask": True, "drop": [opt], "extra": [opt, v]}
        yield {"fmt": fmt, "optprobe": True, "overask": True, "drop": ["-w", "-r"], "extra": ["-w", "128", "-r", "400"]}
    # -s N on a real pipe (a pipe cannot seek)
    for skip in (1, 7, 300):
        yield c(fmt="hrs", w=12, h=3, skip=skip, pipes=True)
        yield c(fmt="max", cols=16, rows=3, how="rows", mode="bw", skip=skip, pipes=True)
        yield c(fmt="max", cols=24, rows=2, how="newsroom", mode="br", skip=skip, pipes=True)
    for skip in range(0, 21):
        yield c(fmt="hrs", w=12, h=3, skip=skip)
        yield c(fmt="hrs", w=7, h=2, skip=skip)
    modes = list(M.MAX_MODES)
    for i, cols in enumerate([8, 16, 24, 32, 64, 128, 256, 512, 1, 7, 9, 12, 20, 30, 100, 255]):
        for rows in (1, 2, 5, 12):
            for how in ("rows", "length", "newsroom"):
                if how == "length" and (cols * rows) % 8:
                    continue
                if how == "newsroom" and cols % 8:
                    continue
                if q and (i + rows) % 2 and cols % 8 == 0:
                    continue
                yield c(fmt="max", cols=cols, rows=rows, how=how, mode=modes[(i + rows + len(how)) % len(modes)])
    # pictures whose byte count needs all sixteen bits of the header's length field (the height is computed from it)
    for cols, rows in ((256, 1023), (256, 1024), (256, 1025), (512, 512), (128, 2304), (256, 2047), (512, 1023), (8, 65535)):
        if not q or cols != 8:
            yield c(fmt="max", cols=cols, rows=rows, how="length", mode=modes[(cols + rows) % len(modes)], pipes=(rows == 1024))
    for mode in modes:
        yield c(fmt="max", cols=256, rows=4, how="length", mode=mode, pipes=(mode == "bw"))
        yield c(fmt="max", cols=16, rows=3, how="rows", mode=mode, skip=9)
    # what the input file is called is no part of its format: no extension, a dot, other extensions, upper case
    for ext in ("", ".", ".a", ".ar", ".pic", ".bin", ".MAX", ".max.bak"):
        yield c(fmt="max", cols=256, rows=4, how="length", mode="bw", in_ext=ext)
        yield c(fmt="hrs", w=32, h=3, in_ext=ext)
        yield c(fmt="mge", rgb=True, comp=True, in_ext=ext)
        yield c(fmt="rat", in_ext=ext)
    for skip in range(0, 21):
        yield c(fmt="max", cols=16, rows=2, how="length", mode="bw", skip=skip)
        # every header variant combined with -s (the skip must happen before whichever header is read)
        yield c(fmt="max", cols=24, rows=3, how="newsroom", mode=modes[skip % len(modes)], skip=skip)
        yield c(fmt="max", cols=40, rows=2, how="rows", mode=modes[(skip + 3) % len(modes)], skip=skip)
    for side in range(2, 66, 2):
        if q and side % 6:
            continue
        yield c(fmt="pix", side=side, pipes=(side == 6))
        for pad in (1, 3, side // 2 - 1):
            if pad > 0 and int(math.sqrt((side * side // 2 + pad) * 2)) == side:
                yield c(fmt="pix", side=side, pad=pad, pipes=(side == 12 and pad == 1))
    for rgb in (True, False):
        for comp in (True, False):
            yield c(fmt="mge", rgb=rgb, comp=comp, pipes=(rgb and comp))
    yield c(fmt="rat", pipes=True)
    yield c(fmt="rat")
    for two in (False, True):
        for pat in (True, False):
            for preset in ("raw", "mixed"):
                yield c(fmt="cm3", two=two, pat=pat, preset=preset, pipes=(two and pat and preset == "raw"))
    for vt in (0, 1, 3):
        for sq in (False, True):
            yield c(fmt="vef", vt=vt, sq=sq)
    for vt in (0, 1, 3):
        for sq in (False, True):
            yield c(fmt="vef", vt=vt, sq=sq, highbits=True)
    yield c(fmt="hrs", w=16, h=3, highbits=True)
    yield c(fmt="mge", rgb=True, comp=True, highbits=True)
    for k_, title in enumerate(["\x8f\x8f CASTLE", "CH\xc2TEAU", "\xff\xfe\x80", "", "A" * 29, "caf\xe9 \x9f"]):
        yield c(fmt="mge", rgb=(k_ % 2 == 0), comp=(k_ % 3 != 0), title=title, pipes=(k_ < 2))
    yield c(fmt="cm3", two=False, pat=True, preset="mixed", highbits=True)
    yield c(fmt="rat", highbits=True)
    # the escape byte is the encoder's free choice: every value that means something special somewhere (0, line ends, ^Z,
    # regular-expression characters, the sign bit, 255)
    for esc in (0, 1, 10, 13, 26, 0x24, 0x2E, 0x5C, 0x7C, 0x7F, 0x80, 0xFF):
        yield c(fmt="rat", escape=esc, content="runs", preset="random")
    # compressed formats: picture contents that give long / maximal runs at the start, the end and throughout, each with
    # the greedy ("maximal") and a random split of runs
    for content in ("zero", "max", "flatrows", "stripes", "bottomflat", "topflat", "corners", "vrepeat", "random"):
        for preset in ("maximal", "random"):
            for rgb in (True, False):
                yield c(fmt="mge", rgb=rgb, comp=True, content=content, preset=preset)
            yield c(fmt="rat", content=content, preset=preset)
            if content in ("zero", "max", "bottomflat", "flatrows"):
                yield c(fmt="rat", content=content, preset=preset, stretch=True)
            for vt in (0, 1, 3):
                if not q or vt == (len(content) + len(preset)) % 3 or vt == 0:
                    yield c(fmt="vef", vt=vt, sq=True, content=content, preset=preset)
        for two in (False, True):
            yield c(fmt="cm3", two=two, pat=(content < "n"), preset="mixed", content=content)
    # seeded random geometry x option sweep beyond the enumerated grid
    rng = random.Random(seed * 104729 + 5)
    for i in range(80 if q else 9000):
        if i % 2 == 0:
            w = rng.choice([rng.randint(1, 64), rng.randint(1, 700)])
            yield c(fmt="hrs", w=w, h=rng.randint(1, 6 if w > 64 else 40), skip=rng.choice([0, 0, rng.randint(1, 40)]))
        else:
            how = rng.choice(["rows", "length", "newsroom"])
            cols = rng.choice([8 * rng.randint(1, 80), rng.randint(1, 600)])
            rows = rng.randint(1, 30 if cols < 100 else 5)
            if how == "newsroom" and cols % 8:
                cols = (cols + 7) // 8 * 8
            if how == "length" and (cols * rows) % 8:
                how = "rows"
            yield c(fmt="max", cols=cols, rows=rows, how=how, mode=rng.choice(modes), skip=rng.choice([0, 0, rng.randint(1, 40)]))
    if not q:
        for rep in range(25):
            for rgb in (True, False):
                for comp in (True, False):
                    yield c(fmt="mge", rgb=rgb, comp=comp)
            yield c(fmt="rat")
            for two in (False, True):
                for pat in (True, False):
                    for preset in ("raw", "mixed"):
                        yield c(fmt="cm3", two=two, pat=pat, preset=preset)
            for vt in (0, 1, 3):
                for sq in (False, True):
                    yield c(fmt="vef", vt=vt, sq=sq)
