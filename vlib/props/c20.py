"""C20 - bundled string helpers compute the Color BASIC function they stand for.
The procedures ecb_instr / ecb_string / ecb_read_filter are interpreted FROM THE CURRENT ecb.b09 by the
reference BASIC09 interpreter for exhaustively enumerated arguments and compared with the Color BASIC
definition; the call sites are driven through the real convert()."""
import itertools
import random

from .. import boot, harness
from ..b09ref import interp as b09i
from ..b09ref.parser import parse_program
from ..b09ref import static
from ..cbref.ast import render
from ..gen import exprs as X

PROPERTY = "C20"
LEVEL = "exploration"
USES_REFERENCE_MODELS = True
RULE = ("INSTR: all subject and pattern strings over {A,B} up to length 4 (quick) / 5 (thorough), start 1..len+1, plus the "
        "empty pattern; STRING$: counts 0..255 x strings of length 1-3; read filter: every numeric spelling the tool can put "
        "into a DATA string, the empty item; call sites through convert() with the argument roles made distinguishable; "
        "distinct = distinct argument tuple; the direct workloads are exhaustive inside the stated bounds")
ASSUMPTIONS = [
    "Color BASIC INSTR(s,x$,y$): 0 if s > LEN(x$); s if y$ is empty; else first position >= s; STRING$(n,x$) = first char n times",
    "library strings are given 255 bytes (as -s 255 would) so that BASIC09's fixed string size does not truncate results",
    "BASIC09 VAL accepts the spellings Python's float repr produces (12.0, 0.5, 1e+20, -3.0) and $hex",
]
REQUIRED_COUNTERS = ["helper_calls_interpreted"]
EXHAUSTIVE = {"quick": True, "thorough": True}
SHARDS = 8

_LIB = {}


def big_library():
    if "lib" not in _LIB:
        text = open(boot.ecb_path()).read().replace("STRING<<>>", "STRING[255]").replace("string<<>>", "string[255]")
        import re
        text = re.sub(r"(?i)string<<>>", "STRING[255]", text)
        _LIB["lib"] = static.interface_table(parse_program(text))
    return _LIB["lib"]


def q(s):
    return '"%s"' % s


def call_helper(lines, nres, strres=False):
    """Run a tiny BASIC09 main program calling the helpers; -> (status, [results])"""
    head = ["base 0", "dim r(%d): real" % max(1, nres), "dim s(%d): string[255]" % max(1, nres), "dim ii: integer",
            "for ii = 0 to %d \\ r(ii) := -99 \\ s(ii) := \"?\" \\ next ii" % (max(1, nres) - 1)]
    text = "\n".join(head + lines) + "\n"
    procs = parse_program(text)
    m = b09i.Machine(procs, big_library(), budget=400000)
    try:
        f = m.run_main(procs[0])
    except b09i.B09RuntimeError as exc:
        return "error %s %s" % (exc.code, exc.msg), None
    except b09i.StepBudget:
        return "budget", None
    st = b09i.dump_store(f)
    return "ok", (st["s"]["v"] if strres else st["r"]["v"])


def cb_instr(start, s, p):
    if start > len(s):
        return 0
    if p == "":
        return start
    return s.find(p, start - 1) + 1


def run_case(case):
    obs = _run_case(case)
    obs["evaluations"] = max(1, obs["counters"].get("helper_calls_interpreted", 1))
    return obs


def _run_case(case):
    kind = case["kind"]
    obs = {"counters": {}, "viols": [], "key": []}
    if kind in ("instr", "instr_long"):
        s = case["s"]
        calls = []
        for p in case["pats"]:
            for start in (range(1, len(s) + 2) if kind == "instr" else case["starts"]):
                if start >= 1:
                    calls.append((start, s, p))
        lines = ["run ecb_instr(%d.0, %s, %s, r(%d))" % (st, q(s0), q(p), i) for i, (st, s0, p) in enumerate(calls)]
        status, res = call_helper(lines, len(calls))
        obs["counters"]["helper_calls_interpreted"] = len(calls)
        obs["key"] = ["instr|%d|%s|%s" % c for c in calls]
        if status != "ok":
            obs["viols"].append({"sig": "C20/instr/runtime-" + status.split()[0], "detail": {"subject": s, "status": status}})
            return obs
        for (st, s0, p), got in zip(calls, res):
            want = cb_instr(st, s0, p)
            if got != want:
                cls = "never-assigned" if got == -99 else ("empty-pattern" if p == "" else "wrong-position")
                obs["viols"].append({"sig": "C20/instr/" + cls, "detail": {"start": st, "subject": s0, "pattern": p,
                                                                            "got": got, "want": want}})
                break
        if case.get("sample"):
            obs["sample"] = {"helper": "ecb_instr", "subject": s, "patterns": case["pats"][:4], "results": res[:6]}
        return obs
    if kind == "string":
        calls = [(n, case["s"]) for n in case["counts"]]
        lines = ["run ecb_string(%d.0, %s, s(%d))" % (n, q(s), i) for i, (n, s) in enumerate(calls)]
        status, res = call_helper(lines, len(calls), strres=True)
        obs["counters"]["helper_calls_interpreted"] = len(calls)
        obs["key"] = ["string|%d|%s" % c for c in calls]
        if status != "ok":
            obs["viols"].append({"sig": "C20/string/runtime-" + status.split()[0], "detail": {"s": case["s"], "status": status}})
            return obs
        for (n, s), got in zip(calls, res):
            want = s[0] * n
            if got != want:
                obs["viols"].append({"sig": "C20/string/wrong-result", "detail": {"count": n, "s": s, "got": got[:60], "want": want[:60]}})
                break
        if case.get("sample"):
            obs["sample"] = {"helper": "ecb_string", "s": case["s"], "counts": case["counts"][:5], "results": res[:3]}
        return obs
    if kind == "string_err":
        for n, s in ((-1, "A"), (3, "")):
            status, res = call_helper(["run ecb_string(%d.0, %s, s(0))" % (n, q(s))], 1, True)
            obs["counters"]["helper_calls_interpreted"] = obs["counters"].get("helper_calls_interpreted", 0) + 1
            obs["key"].append("string_err|%d|%s" % (n, s))
            if not status.startswith("error 52"):
                obs["viols"].append({"sig": "C20/string/illegal-argument-not-reported", "detail": {"count": n, "s": s, "status": status}})
        return obs
    if kind == "filter":
        items = case["items"]
        lines = ["run ecb_read_filter(%s, r(%d))" % (q(t), i) for i, (t, v) in enumerate(items)]
        status, res = call_helper(lines, len(items))
        obs["counters"]["helper_calls_interpreted"] = len(items)
        obs["key"] = ["filter|" + t for t, v in items]
        if status != "ok":
            obs["viols"].append({"sig": "C20/filter/runtime-" + status.split()[0], "detail": {"items": items[:5], "status": status}})
            return obs
        for (t, v), got in zip(items, res):
            if got != v:
                obs["viols"].append({"sig": "C20/filter/" + ("empty-item" if t == "" else "wrong-value"),
                                     "detail": {"item": t, "got": got, "want": v}})
                break
        if case.get("sample"):
            obs["sample"] = {"helper": "ecb_read_filter", "items": items[:6], "results": res[:6]}
        return obs
    if kind == "callsite":
        return run_callsite(case, obs)
    raise ValueError(kind)


def run_callsite(case, obs):
    """INSTR / STRING$ / empty-DATA READ through the real convert(); every argument role gets a distinct value."""
    prog = [(n, list(st)) for n, st in case["prog"]]
    text = render(prog)
    obs["key"] = ["callsite|" + text]
    cb = harness.run_cb(prog)
    if case.get("bundle"):
        # the helpers as the tool BUNDLES them (output_dependencies): the procedures of the emitted text itself are run,
        # sized as the tool sized them, under a configuration file that gives some other variable a size of its own
        from coco.b09.configs import CompilerConfigs, StringConfigs

        obs["key"] = ["bundle|%s|%s|%s" % (text, case["storage"], sorted(case["cfg"].items()))]
        conv = harness.convert(text, default_str_storage=case["storage"], output_dependencies=True, procname="prog", add_standard_prefix=False,
                               compiler_configs=CompilerConfigs(string_configs=StringConfigs(strname_to_size=case["cfg"])))
        obs["counters"]["bundled_helper_runs"] = 1
    else:
        conv = harness.convert(text, default_str_storage=255)
    obs["counters"]["helper_calls_interpreted"] = 1
    if cb["status"] == "ok" and not conv["ok"]:
        # the source runs to its end in Color BASIC: every call-site program of this workload is in the fragment the tool
        # claims, so there must be an emitted program
        obs["viols"].append({"sig": "C20/callsite/%s/valid-program-%s" % (case["what"], "refused" if conv.get("documented") else "internal-error"),
                             "detail": {"source": text, "exception": conv.get("exc"), "message": conv.get("msg")}})
        return obs
    if cb["status"] != "ok" or not conv["ok"]:
        obs["counters"]["callsite_dropped"] = 1
        obs["nontrivial"] = False
        return obs
    b = harness.run_b09(conv["out"], storage=case.get("storage", 255))
    if b["status"] != "ok":
        obs["viols"].append({"sig": "C20/callsite/%s/b09-%s" % (case["what"], b["status"]),
                             "detail": {"source": text, "error": b["error"], "emitted": conv["out"][-600:]}})
        return obs
    diffs = harness.compare_stores(cb["store"], b["store"])
    if diffs:
        obs["viols"].append({"sig": "C20/callsite/%s/value" % case["what"],
                             "detail": {"source": text, "diffs": diffs[:4], "emitted": conv["out"][-600:]}})
    if case.get("sample"):
        obs["sample"] = {"call_site": text.strip(), "store": {k: v for k, v in cb["store"].items() if not isinstance(v, dict)}}
    return obs


def strings_upto(n, alphabet="AB"):
    for k in range(0, n + 1):
        for t in itertools.product(alphabet, repeat=k):
            yield "".join(t)


def cases(tier, seed):
    L = 4 if tier == "quick" else 6
    subjects = list(strings_upto(L))
    pats = list(strings_upto(L))
    for i, s in enumerate(subjects):
        yield {"kind": "instr", "s": s, "pats": pats, "sample": i == 7}
    # a different alphabet and longer, sparser strings
    rng = random.Random(seed + 17)
    for i in range(20 if tier == "quick" else 300):
        s = "".join(rng.choice("XYZ ") for _ in range(rng.randint(5, 12)))
        ps = [s[a:b] for a in range(len(s)) for b in range(a + 1, min(len(s), a + 4) + 1)][:40] + ["Q", "XQ", ""]
        yield {"kind": "instr", "s": s, "pats": ps}
    # long subjects and patterns (beyond BASIC09's default 32-byte strings: the library is sized 255 here, as -s 255 gives)
    for i in range(12 if tier == "quick" else 200):
        n = rng.choice([33, 34, 40, 64, 100, 200, 255])
        s = "".join(rng.choice("ab") for _ in range(n))
        ps = []
        for _ in range(6):
            a = rng.randrange(0, max(1, n - 33))
            ln = rng.choice([33, 34, 40, min(60, n - a)])
            ps.append(s[a:a + ln])
        ps += [s, s[1:], s[:-1], s + "a", "b" * 33, s[-33:], s[:33]]
        ps = [p for p in ps if len(p) <= 255]            # the library strings hold 255 characters
        # starts: a sample, not every position, to keep the batch small
        yield {"kind": "instr_long", "s": s, "pats": ps, "starts": sorted({1, 2, n // 2, n - 33 if n > 33 else 1, n, n + 1, rng.randint(1, n)})}
    for s in ["A", "B", "AB", "BA", "ABC", "XYZ", " A", "ZZZ"]:
        yield {"kind": "string", "s": s, "counts": list(range(0, 256)), "sample": s == "AB"}
    yield {"kind": "string_err"}
    vals = [0, 1, 12, 100, 32767, 65535, 0.5, 2.5, 0.015, 1000, 1e20, 1e-5, 123456789]
    items = [("", 0.0)]
    for v in vals:
        for sg in (1, -1):
            f = float(sg * v)
            items.append((str(f), f))
    items += [("$FF", 255.0), ("$0", 0.0), ("$7FFF", 32767.0), ("5", 5.0), ("007", 7.0), (" 5", 5.0), ("5 ", 5.0)]
    yield {"kind": "filter", "items": items, "sample": True}
    # call sites: roles distinguishable (start index / subject / pattern; count / string)
    n = 0
    for start in (1, 2, 3):
        for subj, pat in (("ABCABC", "BC"), ("HELLO", "L"), ("AAA", "AA"), ("ABC", "D"), ("ABC", ""), ("", "A"), ("BCBC", "ABCABC")):
            n += 1
            prog = [(10, [("let", ("var", "S"), X.num(start), False), ("let", ("var", "A$"), ("str", subj), False),
                          ("let", ("var", "B$"), ("str", pat), False)]),
                    (20, [("let", ("var", "R"), ("fn", "INSTR", [("var", "S"), ("var", "A$"), ("var", "B$")]), False)]),
                    (30, [("let", ("var", "Q"), ("fn", "INSTR", [X.num(start), ("str", subj), ("str", pat)]), False)])]
            yield {"kind": "callsite", "what": "INSTR", "prog": prog, "sample": n == 1}
    for cnt in (0, 1, 3, 40):
        for s in ("XY", "Q", "AB"):
            prog = [(10, [("let", ("var", "N"), X.num(cnt), False), ("let", ("var", "A$"), ("str", s), False)]),
                    (20, [("let", ("var", "R$"), ("fn", "STRING$", [("var", "N"), ("var", "A$")]), False)]),
                    (30, [("let", ("var", "Q$"), ("bin", "+", ("fn", "STRING$", [X.num(cnt), ("str", s)]), ("str", "!")), False)])]
            yield {"kind": "callsite", "what": "STRING$", "prog": prog}
    # the target of the assignment is also an argument (BASIC09 passes variables by reference: result and argument are then
    # the same storage inside the helper)
    for st in (32, 80):
        prog = [(10, [("let", ("var", "A$"), ("str", "HELLO"), False), ("let", ("var", "N"), X.num(2), False), ("let", ("var", "M"), X.num(3), False)]),
                (20, [("let", ("var", "A$"), ("fn", "STRING$", [X.num(3), ("var", "A$")]), False)]),
                (30, [("let", ("var", "N"), ("fn", "INSTR", [("var", "N"), ("str", "ABCABC"), ("str", "BC")]), False)]),
                (40, [("let", ("var", "M"), ("fn", "INSTR", [("var", "M"), ("str", "ABCABC"), ("str", "BC")]), False)])]
        yield {"kind": "callsite", "what": "target-is-argument", "prog": prog, "bundle": True, "storage": st, "cfg": {}}
        yield {"kind": "callsite", "what": "target-is-argument", "prog": prog}
        # (array elements only against the reference's own copy of the library: without the prologue there is no BASE 0)
        prog = [(5, [("dim", [("B$", [3], ["3"])])]), (10, [("let", ("arr", "B$", [X.num(1)]), ("str", "XY"), False)]),
                (20, [("let", ("arr", "B$", [X.num(1)]), ("fn", "STRING$", [X.num(2), ("arr", "B$", [X.num(1)])]), False)])]
        yield {"kind": "callsite", "what": "target-is-argument", "prog": prog}
    # the bundled helpers under a configuration file: strings of 19-20 characters, default size 32 / 64 / 255, another name
    # configured smaller or larger than that
    long_s, pat = "THE QUICK BROWN FOX", "FOX"
    for storage in (32, 64, 255):
        for cfg in ({"N$()": 8}, {"ZZ$": 5, "Q$": 9}, {"Q$": 300}, {}):
            prog = [(10, [("let", ("var", "A$"), ("str", long_s), False), ("let", ("var", "B$"), ("str", pat), False)]),
                    (20, [("let", ("var", "R"), ("fn", "INSTR", [X.num(1), ("var", "A$"), ("var", "B$")]), False),
                          ("let", ("var", "Q"), ("fn", "INSTR", [X.num(3), ("str", long_s), ("str", "BROWN FOX")]), False)]),
                    (30, [("let", ("var", "R$"), ("fn", "STRING$", [X.num(20), ("str", "*")]), False),
                          ("let", ("var", "S$"), ("bin", "+", ("fn", "STRING$", [X.num(18), ("var", "B$")]), ("str", "!")), False)])]
            yield {"kind": "callsite", "what": "bundled-helpers", "prog": prog, "bundle": True, "storage": storage, "cfg": cfg}
            prog = [(10, [("data", [("u", ""), ("n", 123456.789, ["123456.789"]), ("n", 1e-5, ["1", "E", "-", "5"])])]),
                    (20, [("read", [("var", "A"), ("var", "B"), ("var", "C")])])]
            yield {"kind": "callsite", "what": "bundled-read-filter", "prog": prog, "bundle": True, "storage": storage, "cfg": cfg}
    # every numeric spelling, with and without an empty item in the program (the two READ paths)
    spellings = [["1", "E", "-", "5"], ["2", "E", "-", "7"], ["1.25", "E", "-", "5"], ["1", "E", "20"], [".000001"], ["123456.789"],
                 ["-", "1", "E", "-", "10"], ["1", "E", "3"], ["0.00004"], ["65535"], ["1.5", "E", "+", "2"], ["-", ".5"], ["12."], ["007"],
                 # the top of the range (Color BASIC and BASIC09 reals reach 1.70141183E+38) and the bottom
                 ["1", "E", "38"], ["1.5", "E", "38"], ["-", "1.7", "E", "38"], ["17", "E", "37"], [".1", "E", "39"], ["9.99", "E", "37"],
                 ["3", "E", "-", "38"], ["1", "E", "-", "37"],
                 # items whose text is longer than a dozen characters (nothing may cut them short on the way to the filter)
                 ["2000000000000"], ["12345678.9012"], ["-", "98765432.125"], [".000012345678"], ["1500000000000000"], ["123456789012345678"]]
    # degenerate spellings Color BASIC reads as numbers all the same: a lone point is zero, a missing exponent is E0
    odd = [([".",], 0.0), (["+", "."], 0.0), (["-", "."], 0.0), ([".", "E", "3"], 0.0), (["5", "E"], 5.0), (["5", "E", "+"], 5.0), (["-", "5", "E", "-"], -5.0),
           (["+", "7"], 7.0), (["-", "-", "7"], 7.0), (["0"], 0.0), (["-", "0"], 0.0), (["00.50"], 0.5)]
    for sp, val in [(sp, float("".join(sp))) for sp in spellings] + odd:
        for with_empty in (True, False):
            items = ([("u", "")] if with_empty else []) + [("n", val, sp), ("n", 3.0, ["3"])]
            tg = ([("var", "A")] if with_empty else []) + [("var", "B"), ("var", "C")]
            yield {"kind": "callsite", "what": "READ-numeric-spelling", "prog": [(10, [("data", items)]), (20, [("read", tg)])]}
    # hexadecimal items, with the blanks the tool's grammar allows inside them, on both READ paths
    for hv, sp in ((255, "FF"), (255, " FF"), (31, "  1F"), (0, " 0"), (65535, " FFFF"), (4096, "1000"), (10, " A"),
                   # (the grammar takes up to six hexadecimal digits)
                   (0x8000, "8000"), (0x10000, "10000"), (0x12345, "12345"), (0x70000, "70000"), (0xFFFFFF, "FFFFFF"), (0x0FFFF, "0FFFF")):
        for with_empty in (True, False):
            items = ([("u", "")] if with_empty else []) + [("h", hv, sp), ("n", 3.0, ["3"])]
            tg = ([("var", "A")] if with_empty else []) + [("var", "B"), ("var", "C")]
            yield {"kind": "callsite", "what": "READ-hex-spelling", "prog": [(10, [("data", items)]), (20, [("read", tg)])]}
    for data in ([("n", 5.0, ["5"]), ("u", ""), ("n", 2.5, ["2.5"])], [("u", ""), ("u", ""), ("n", 7.0, ["7"])],
                 [("n", 1.0, ["1"]), ("u", ""), ("h", 255, "FF")], [("u", ""), ("q", "X"), ("n", 3.0, ["3"])]):
        tg = [("var", "A"), ("var", "B$" if data[1][0] == "q" else "B"), ("var", "C")]
        prog = [(10, [("data", data)]), (20, [("read", tg)])]
        yield {"kind": "callsite", "what": "READ-empty-DATA", "prog": prog}
