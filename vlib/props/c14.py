"""C14 - every emitted runtime call matches the declared interface of its procedure.
Static monitor over RUN sites parsed from real convert() outputs and from the current library text."""
import random

from .. import boot, harness
from ..b09ref import static
from ..b09ref.parser import parse_program
from ..cbref.ast import render
from ..gen import progs, progtools
from . import c07

PROPERTY = "C14"
LEVEL = "exploration"
RULE = ("case = one program (every device statement / convertible function / prologue variant / INPUT wrapper / READ filter, "
        "operands as literal, variable, array element, expression, nested convertible function, string vs numeric item) whose "
        "emitted RUN sites are checked against the PARAM/TYPE lines parsed from the current ecb.b09; plus the library's own "
        "RUN sites; distinct = distinct (callee, argument class list); non-trivial = at least one RUN site was checked")
ASSUMPTIONS = ["argument classes are coarse (string / numeric / record type), as the property states; INTEGER vs REAL is not compared",
               "gfx2, gfx, syscall are OS-9 system modules without a declared interface; inkey takes (char$) or (path, char$)"]
REQUIRED_COUNTERS = ["run_sites_checked"]


def check_sites(proc, lib, where):
    """-> (n sites, list of (sig, detail), set of (callee, classes))"""
    inf = static.analyse(proc)
    decl = static.declared_types(inf)
    viols = []
    seen = set()
    n = 0
    for name, args, idx in inf.runs:
        low = name.lower()
        if low == "inkey":
            # OS-9 system module with a documented interface: RUN inkey(char$) or RUN inkey(path, char$)
            n += 1
            cls = [static.expr_class(a, decl, inf.types) for a in args]
            seen.add("inkey(%s)" % ",".join(c if isinstance(c, str) else "rec" for c in cls))
            if len(args) not in (1, 2):
                viols.append(("C14/arity/inkey/%d-for-1-or-2" % len(args), {"where": where, "call": name, "line": proc.body[idx].line}))
            elif cls[-1] not in ("string", "unknown") or args[-1][0] != "ref" or (len(args) == 2 and cls[0] == "string"):
                viols.append(("C14/class/inkey/%s" % ",".join(map(str, cls)), {"where": where, "call": name, "line": proc.body[idx].line}))
            continue
        if low in static.SYSTEM_MODULES:
            continue
        n += 1
        classes = [static.expr_class(a, decl, inf.types) for a in args]
        seen.add("%s(%s)" % (low, ",".join(c if isinstance(c, str) else "rec:" + c[1] for c in classes)))
        if low not in lib:
            viols.append(("C14/unknown-procedure/%s" % low, {"where": where, "call": name, "line": proc.body[idx].line}))
            continue
        params = lib[low]["params"]
        if len(params) != len(args):
            viols.append(("C14/arity/%s/%d-for-%d" % (low, len(args), len(params)),
                          {"where": where, "call": name, "line": proc.body[idx].line, "params": [p[0] for p in params]}))
            continue
        for pos, ((pname, pdims, pty), cl) in enumerate(zip(params, classes)):
            pc = static.type_class(pty, pname)
            ok = True
            if cl == "unknown":
                continue
            if isinstance(pc, tuple):
                if not isinstance(cl, tuple):
                    ok = False
                else:
                    # record types must be field-for-field identical on both sides
                    mine = inf.types.get(cl[1])
                    theirs = lib[low]["types"].get(pc[1])
                    if mine is None or theirs is None or [tuple(x) for x in mine] != [tuple(x) for x in theirs]:
                        viols.append(("C14/type-fields/%s/%s" % (low, pc[1]),
                                      {"where": where, "caller_type": mine, "callee_type": theirs}))
                        continue
            elif pc == "string":
                ok = cl == "string"
            elif pc == "boolean":
                ok = cl == "boolean"
            else:
                ok = cl == "numeric"
            if not ok:
                viols.append(("C14/class/%s/%s-is-%s-got-%s" % (low, pname, pc if isinstance(pc, str) else "record",
                                                               cl if isinstance(cl, str) else "record"),
                              {"where": where, "call": name, "line": proc.body[idx].line, "position": pos}))
    return n, viols, seen


def split_args(text):
    """Top-level comma split of the text between the parentheses of one RUN call (strings and nesting respected)."""
    out, cur, depth, instr = [], "", 0, False
    for ch in text:
        if instr:
            cur += ch
            instr = ch != '"'
            continue
        if ch == '"':
            instr = True
        elif ch in "([":
            depth += 1
        elif ch in ")]":
            depth -= 1
        elif ch == "," and depth == 0:
            out.append(cur.strip())
            cur = ""
            continue
        cur += ch
    out.append(cur.strip())
    return out


def lexical_sites(out, lib):
    """Fallback when the emitted text does not parse (ill-formed text is C07's alarm): the RUN calls are read off the
    lines; what this can still decide is the count - a call with an empty slot or a number of arguments that differs
    from the PARAM lines.  -> (n, [(sig, detail)])"""
    import re

    n = 0
    viols = []
    for i, line in enumerate(out.split("\n")):
        for part in re.split(r"\s\\\s", line):
            m = re.match(r"^\s*(?:\d+\s+)?run\s+([A-Za-z_][A-Za-z0-9_]*)\((.*)\)\s*$", part, re.I)
            if not m:
                m2 = re.match(r"^\s*(?:\d+\s+)?run\s+([A-Za-z_][A-Za-z0-9_]*)\(", part, re.I)
                if m2 and m2.group(1).lower() in lib and line.count('"') % 2 == 1:
                    # the call's argument list does not end on its line, inside a string constant: the callee is handed
                    # fewer arguments than it declares (and half a string)
                    n += 1
                    viols.append(("C14/arity/%s/call-cut-off-inside-a-string" % m2.group(1).lower(),
                                  {"where": "program", "call": m2.group(1).lower(), "line": i + 1, "text": part.strip()[:160]}))
                continue
            low = m.group(1).lower()
            if low in static.SYSTEM_MODULES or low == "inkey" or low not in lib:
                continue
            args = split_args(m.group(2))
            n += 1
            if any(a == "" for a in args):
                viols.append(("C14/arity/%s/empty-argument" % low, {"where": "program", "call": low, "line": i + 1, "text": part.strip()[:160]}))
            elif len(args) != len(lib[low]["params"]):
                viols.append(("C14/arity/%s/%d-for-%d" % (low, len(args), len(lib[low]["params"])),
                              {"where": "program", "call": low, "line": i + 1, "text": part.strip()[:160]}))
    return n, viols


def run_case(case):
    obs = {"counters": {}, "viols": [], "sets": {}}
    lib = harness.library()
    if case["kind"] == "library":
        total = 0
        allseen = set()
        for name, ent in sorted(lib.items()):
            n, viols, seen = check_sites(ent["proc"], lib, "library:" + name)
            total += n
            allseen |= seen
            for sig, d in viols:
                obs["viols"].append({"sig": sig, "detail": d})
        # the display / play record types must be identical in every library procedure that declares them
        ref = {}
        for name, ent in sorted(lib.items()):
            for tn, fields in ent["types"].items():
                f = [tuple(x) for x in fields]
                if tn in ref and ref[tn][1] != f:
                    obs["viols"].append({"sig": "C14/type-fields/library/%s" % tn,
                                         "detail": {"first": ref[tn][0], "other": name, "a": ref[tn][1], "b": f}})
                ref.setdefault(tn, (name, f))
        obs["counters"]["run_sites_checked"] = total
        obs["counters"]["library_procedures"] = len(lib)
        obs["key"] = sorted(allseen)
        obs["evaluations"] = total
        obs["sample"] = {"library_run_sites": total, "procedures": len(lib), "examples": sorted(allseen)[:5]}
        return obs
    if case["kind"] == "peg":
        # a sentence derived from the grammar object of the tree under observation: spellings nobody chose
        # (PALETTECMP, ?@5, blank-less keywords ...) must reach the same procedures with the same arguments
        from coco.b09 import compiler
        from ..gen import peggen

        g = getattr(compiler.grammar, "_real", compiler.grammar)
        rng = random.Random(case["seed"])
        text = peggen.PegSampler(g, rng, max_depth=rng.choice([12, 16, 20])).gen()
        prog = None
    elif case["kind"] == "text":
        text = case["text"]
        prog = None
    else:
        r = random.Random(case["seed"])
        g = progs.ProgGen(r, **case.get("knobs", {}))
        prog = g.program()
        text = render(prog)
    opts = case.get("opts", {})
    conv = harness.convert(text, **opts)
    if not conv["ok"]:
        obs["nontrivial"] = False
        obs["counters"]["not_converted"] = 1
        obs["key"] = "x"
        return obs
    procs, err = harness.parse_b09(conv["out"])
    if procs is None:
        obs["nontrivial"] = False
        obs["counters"]["unparseable_output"] = 1     # C07's business - except for what the lines still show
        obs["key"] = "x"
        n, viols = lexical_sites(conv["out"], lib)
        obs["counters"]["run_sites_checked_lexically"] = n
        for sig, d in viols:
            obs["viols"].append({"sig": sig, "detail": dict(d, source=text[:600])})
        return obs
    main = procs[-1]
    n, viols, seen = check_sites(main, lib, "program")
    if opts.get("output_dependencies"):
        # a bundle: what the program calls is defined in the text itself
        defined = {p_.name.lower() for p_ in procs}
        for callee in sorted({s_.split("(")[0].lower() for s_ in seen}):
            if callee in lib and callee not in defined:
                viols.append(("C14/bundle/called-procedure-not-defined", {"callee": callee}))
    obs["counters"]["run_sites_checked"] = n
    obs["key"] = sorted(seen) or "none"
    obs["nontrivial"] = n > 0
    obs["sets"]["callees"] = sorted(s.split("(")[0] for s in seen)
    for sig, d in viols:
        if case["kind"] == "peg" and sig.endswith("-got-boolean"):
            # a comparison used as a number in the SOURCE (grammar-derived sentences do that freely): the tool explicitly
            # does not promise type correctness of mixed boolean / numeric expressions
            obs["counters"]["boolean_operand_sources"] = obs["counters"].get("boolean_operand_sources", 0) + 1
            continue
        d = dict(d, source=text[:600], emitted_line=conv["out"].split("\n")[d["line"] - 1] if d.get("line") else None)
        obs["viols"].append({"sig": sig, "detail": d})
    if case.get("sample"):
        obs["sample"] = {"source": text[:200], "run_sites": sorted(seen)[:8]}
    return obs


OPERAND_VARIANTS = ["3", "A", "X(2)", "A+1", "INT(A)", "JOYSTK(0)", "(A*2)", "-A", "LEN(B$)", "ABS(INT(A))", "&HFF"]
STR_VARIANTS = ['"AB"', "B$", "S$(1)", 'B$+"X"', "STR$(A)", "INKEY$", "CHR$(65)", "LEFT$(B$,INT(A))", "STRING$(2,B$)", "HEX$(A)"]


def cases(tier, seed):
    yield {"kind": "library"}
    for t in c07.SINGLE_STATEMENTS:
        for o in ({}, {"initialize_vars": True}, {"add_standard_prefix": True, "default_str_storage": 80}):
            yield {"kind": "text", "text": t, "opts": o}
    templates = ["CLS %s", "LOCATE %s,%s", "ATTR %s,%s,B", "WIDTH %s", "PALETTE %s,%s", "HSCREEN %s", "HCLS %s", "HCOLOR %s,%s",
                 "HCOLOR %s", "HCIRCLE(%s,%s),%s", "HCIRCLE(%s,%s),%s,%s", "HCIRCLE(%s,%s),%s,%s,%s", "HCIRCLE(%s,%s),%s,,%s",
                 "HCIRCLE(%s,%s),%s,%s,%s,%s,%s", "HLINE(%s,%s)-(%s,%s),PSET", "HLINE-(%s,%s),PRESET,BF", "HSET(%s,%s)",
                 "HSET(%s,%s,%s)", "HRESET(%s,%s)", "HPAINT(%s,%s)", "HPAINT(%s,%s),%s", "HPAINT(%s,%s),%s,%s", "HPRINT(%s,%s),%s",
                 "HBUFF %s,%s", "HGET(%s,%s)-(%s,%s),%s", "HPUT(%s,%s)-(%s,%s),%s,XOR", "SET(%s,%s,%s)", "RESET(%s,%s)",
                 "SOUND %s,%s", "POKE %s,%s", "PRINT@%s,%s", "A=BUTTON(%s)", "A=JOYSTK(%s)", "A=POINT(%s,%s)", "A=INT(%s)",
                 "A=INSTR(%s,B$,B$)", "PRINT %s;%s", "ON %s GOTO 10", "FOR I=%s TO %s:NEXT", "IF %s>1 THEN 10", "X(%s)=%s"]
    stemplates = ["HPRINT(1,2),%s", "HDRAW %s", "PLAY %s", "PRINT %s", "A=VAL(%s)", "A=INSTR(1,%s,%s)", "B$=STRING$(3,%s)",
                  "A=LEN(%s)", "PRINT %s;%s", "IF %s=\"\" THEN 10", "B$=%s+%s"]
    n = 0
    rng = random.Random(seed + 99)
    for t in templates:
        k = t.count("%s")
        for v in OPERAND_VARIANTS:
            n += 1
            args = tuple(v if j == (n % k) else rng.choice(OPERAND_VARIANTS[:4]) for j in range(k))
            yield {"kind": "text", "text": "10 " + t % args, "opts": {}, "sample": n % 120 == 0}
            if tier == "thorough":
                yield {"kind": "text", "text": "10 " + t % tuple([v] * k), "opts": {"initialize_vars": True}}
    for t in stemplates:
        k = t.count("%s")
        for v in STR_VARIANTS:
            yield {"kind": "text", "text": "10 " + t % tuple([v] * k), "opts": {}}
    # the same statements in every arm of an IF: THEN, ELSE, first and later ELSE IF, behind another statement
    arms = ["10 IF A=1 THEN %s", "10 IF A=1 THEN %s ELSE CLS", "10 IF A=1 THEN CLS ELSE %s", "10 IF A=1 THEN CLS ELSE IF A=2 THEN %s",
            "10 IF A=1 THEN CLS ELSE IF A=2 THEN %s ELSE CLS 3", "10 IF A=1 THEN CLS ELSE IF A=2 THEN CLS 2 ELSE IF A=3 THEN %s ELSE CLS 3",
            "10 IF A=1 THEN CLS:%s ELSE IF A=2 THEN CLS 2:%s", "10 CLS:%s"]
    m = 0
    for t in templates + stemplates:
        if t.startswith(("FOR ", "IF ", "ON ")):
            continue
        k = t.count("%s")
        pool = STR_VARIANTS if t in stemplates else OPERAND_VARIANTS
        for v in (pool[4:7] if tier == "quick" else pool):
            m += 1
            st = t % tuple(v if j == (m % k) else pool[m % 4] for j in range(k))
            arm = arms[m % len(arms)]
            for a in ([arm] if tier == "quick" else arms):
                yield {"kind": "text", "text": a.replace("%s", st), "opts": [{}, {"initialize_vars": True}][m % 2]}
    yield {"kind": "text", "text": "10 INPUT A,B$:LINE INPUT C$:READ A,B$\n20 DATA 1,,X", "opts": {}}
    # emitted lines far longer than 255 characters (a dozen converted functions in one statement) that carry the statement
    # separator of BASIC09 inside a string constant: the call is still one call on one line
    many = "+".join("STR$(%s)" % v for v in "ABCDEFGHIJKL")
    for t in ('HPRINT(0,0),"SC \\ LV"+%s' % many, 'A=INSTR(1,"X \\ Y"+%s,"Q \\ R")' % many, 'PRINT "A \\ B";%s' % many.replace("+", ";"),
              'B$=STRING$(2," \\ ")+%s:PLAY "C \\ D"' % many, 'IF A=1 THEN HPRINT(1,1),"P \\ Q"+%s ELSE PLAY " \\ "' % many):
        for o in ({}, {"output_dependencies": True, "procname": "prog"}, {"initialize_vars": True, "default_str_storage": 80}):
            yield {"kind": "text", "text": "10 " + t, "opts": o}
    # string constants holding characters that a line-splitting routine of the host language (not the tool's grammar) takes
    # for line ends, with and without the runtime procedures in front of the program: the call is still one call
    for j, t in enumerate(stemplates):
        k = t.count("%s")
        for ch in "\x0b\x0c\x1c\x1d\x1e\x85\u2028\u2029":
            lit = '"PAGE%sTWO"' % ch
            for o in ({}, {"output_dependencies": True, "procname": "prog"}, {"output_dependencies": True, "procname": "prog", "default_str_storage": 80}):
                yield {"kind": "text", "text": "10 " + t % tuple([lit] * k), "opts": o}
    # string variables and arrays whose names begin with a word BASIC09 reserves (PI, SQ, DO): still strings where a string
    # is declared
    for t in ('PLAY PI$', 'HDRAW SQ$(1)', 'A=INSTR(1,PI$,"D")', 'A$=STRING$(3,DO$)', 'A=VAL(DO$)', 'HPRINT(1,2),SQ$(1)', 'PI$="X":PRINT PI$;DO$(2)',
              'A=INSTR(1,SQR$,PIX$)', 'LINE INPUT DO$', 'INPUT PI$,SQ$(1)', 'READ DO$\n20 DATA ,X'):
        for o in ({}, {"initialize_vars": True, "default_str_storage": 80}):
            yield {"kind": "text", "text": "10 " + t, "opts": o}
    # a string constant without its closing quote at the end of a line, in every place a string can end a line (most are
    # refused today; what is accepted - now or after a change - must call with a string where a string is declared)
    for t in ('PRINT "HELLO', '?"HI', 'PRINT@5,"X', 'PRINT A;"X', 'PRINT "A";"B', 'HPRINT(1,2),"HI', 'PLAY "CDE', 'HDRAW "BM10,10;R5', 'B$=A$+"X',
              'A$="HELLO', 'A$(1)="X', 'A=VAL("12', 'A=INSTR(1,A$,"X', 'B$=STRING$(3,"*', 'A=LEN("ABC', 'IF A=1 THEN PRINT "YES', 'INPUT "WHO', 'LINE INPUT "WHO'):
        for o in ({}, {"initialize_vars": True}):
            yield {"kind": "text", "text": "10 " + t, "opts": o}
            yield {"kind": "text", "text": "10 A=1:" + t + "\n20 END", "opts": o}
    for i in range(1500 if tier == "quick" else 150000):
        yield {"kind": "peg", "seed": seed * 500009 + i, "opts": [{}, {"initialize_vars": True}][i % 2]}
    m = 300 if tier == "quick" else 40000
    for i in range(m):
        yield {"kind": "gen", "seed": seed * 1009 + i, "opts": [{}, {"initialize_vars": True}][i % 2],
               "knobs": {"max_depth": 1, "device": True, "ifs": i % 3 == 0}}
