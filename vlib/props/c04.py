"""C04 - screen, graphics and sound statements reach the runtime with the right operands.
The source statement is executed by the Color BASIC reference (which knows, from the role table in
vlib/gen/devices.py, which runtime procedure and PARAM *name* each operand must reach); the text emitted by
the real convert() is executed by the reference BASIC09 interpreter whose device stubs record RUN events;
positions are mapped to names through the PARAM lines of the current ecb.b09."""
import itertools
import random

from .. import harness
from ..cbref.ast import render
from ..gen import devices as DV
from ..gen import exprs as X

PROPERTY = "C04"
LEVEL = "exploration"
USES_REFERENCE_MODELS = True
RULE = ("case = device statement form x presence pattern of its optional operands x operand kind (literal, variable, array "
        "element, arithmetic expression, expression needing a temporary, string expression) with a distinct value per operand; "
        "the forms and presence patterns are enumerated exhaustively, operand kinds rotate (quick) or form the full product on "
        "one operand at a time (thorough); distinct = (form, presence pattern, operand kinds); non-trivial = both machines ran "
        "and the event lists were compared")
ASSUMPTIONS = ["role table vlib/gen/devices.py (DESIGN.md Appendix B), written from the Color BASIC meaning of each statement and the "
               "PARAM names of ecb.b09", "device procedures are stubs: their effect on the screen is not modelled"]
REQUIRED_COUNTERS = ["events_compared"]

SETUP = [("let", ("var", "A"), X.num(3), False), ("let", ("var", "B"), X.num(5), False), ("let", ("var", "C"), X.num(7), False),
         ("let", ("arr", "X", [X.num(1)]), X.num(11), False), ("let", ("arr", "X", [X.num(2)]), X.num(13), False),
         ("let", ("var", "A$"), ("str", "U5"), False), ("let", ("var", "B$"), ("str", "R7"), False)]


def operand(kind, k):
    """k-th operand of a statement, of the given kind; values are distinct per k."""
    lits = [2, 4, 6, 8, 10, 12, 14, 1]
    if kind == "lit":
        return X.num(lits[k % 8])
    if kind == "big":
        return X.num(lits[k % 8])        # replaced by the operand's largest legal value in build_stmt, where one is listed
    if kind == "zero":
        return X.num(0)
    if kind in ("bareb", "barez"):
        return ("var", "P%d" % k)         # as bare, with values beyond the screen (set on line 12)
    if kind == "bare":
        # a bare variable of its own for every operand (P0..P6, set on line 15; the later ones descending: .75 before .25)
        return ("var", "P%d" % k)
    if kind == "var":
        return ("bin", "+", ("var", "ABC"[k % 3]), X.num(k)) if k >= 3 else ("var", "ABC"[k % 3])
    if kind == "arr":
        return ("bin", "+", ("arr", "X", [X.num(1 + k % 2)]), X.num(k))
    if kind == "expr":
        return ("bin", "*", ("var", "A"), X.num(k + 2))
    if kind == "tmp":
        return ("bin", "+", ("fn", "INT", [("bin", "/", ("var", "C"), X.num(2))]), X.num(k))
    if kind == "dev":
        return ("bin", "+", ("fn", "BUTTON", [X.num(k)]), X.num(20 + k))
    if kind == "same":
        # textually identical impure call in every position: each occurrence must be evaluated on its own
        return ("fn", "BUTTON", [X.num(0)])
    if kind == "rnd":
        return ("fn", "INT", [("bin", "*", ("fn", "RND", [X.num(0)]), X.num(3))])
    if kind == "par":
        return ("par", ("bin", "-", ("var", "C"), X.num(k)))
    if kind == "neg":
        # operand that starts with a sign (a different parse-tree class in the tool)
        return ("un", "-", ("par", ("bin", "-", X.num(k), ("var", "C"))))
    if kind == "not":
        return ("un", "NOT", ("par", ("bin", "+", ("var", "A"), X.num(k))))
    raise ValueError(kind)


def str_operand(kind, k):
    if kind in ("lit", "par", "neg", "not", "same", "rnd", "big", "zero", "bare", "bareb", "barez"):
        return ("str", ["U5", "L3", "T2"][k % 3])
    if kind in ("var", "arr"):
        return ("var", "A$" if k % 2 == 0 else "B$")
    if kind == "expr":
        return ("bin", "+", ("var", "A$"), ("str", "D2"))
    return ("bin", "+", ("fn", "STRING$", [X.num(2), ("var", "B$")]), ("fn", "CHR$", [X.num(65 + k)]))


KINDS = ["lit", "var", "arr", "expr", "tmp", "dev", "par", "neg", "not"]

# form name -> (KIND, required operand names, optional patterns (tuples of operand names present), extra literal options)
def forms():
    F = []
    F.append(("CLS", [], [(), ("c",)], [{}]))
    F.append(("LOCATE", ["x", "y"], [()], [{}]))
    F.append(("ATTR", ["f", "b"], [()], [{"opts": []}, {"opts": ["B"]}, {"opts": ["U"]}, {"opts": ["B", "U"]}, {"opts": ["U", "B", "U"]}]))
    F.append(("WIDTH", ["n"], [()], [{}]))
    F.append(("PALETTE", ["r", "c"], [()], [{}]))
    for k in ("PALETTE_RGB", "PALETTE_CMP", "RGB", "CMP"):
        F.append((k, [], [()], [{}]))
    F.append(("HSCREEN", [], [(), ("n",)], [{}]))
    F.append(("HCLS", [], [(), ("c",)], [{}]))
    F.append(("HCOLOR", ["f"], [(), ("b",)], [{}]))
    F.append(("HCIRCLE", ["x", "y", "r"], [(), ("c",), ("c", "ratio"), ("ratio",), ("c", "ratio", "s", "e"), ("ratio", "s", "e")], [{}]))
    F.append(("HLINE", ["x1", "y1"], [(), ("x0", "y0")], [{"mode": m, "box": b} for m in ("PSET", "PRESET") for b in (None, "B", "BF")]))
    F.append(("HSET", ["x", "y"], [(), ("c",)], [{}]))
    F.append(("HRESET", ["x", "y"], [()], [{}]))
    F.append(("HPAINT", ["x", "y"], [(), ("c",), ("c", "b")], [{}]))
    F.append(("HPRINT", ["x", "y", "t"], [()], [{"tkind": "str"}, {"tkind": "num"}, {"tkind": "long"}, {"tkind": "odd"}]))
    F.append(("HDRAW", ["s"], [()], [{}]))
    F.append(("PLAY", ["s"], [()], [{}]))
    F.append(("HBUFF", ["b", "s"], [()], [{}]))
    F.append(("HGET", ["x0", "y0", "x1", "y1", "b"], [()], [{}]))
    F.append(("HPUT", ["x0", "y0", "x1", "y1", "b"], [()], [{"action": a} for a in ("AND", "NOT", "OR", "PRESET", "PSET", "XOR")]))
    F.append(("SET", ["x", "y", "c"], [()], [{}]))
    F.append(("RESET", ["x", "y"], [()], [{}]))
    F.append(("SOUND", ["f", "d"], [()], [{}]))
    F.append(("POKE", ["a", "v"], [()], [{}, {"speed": 65496}, {"speed": 65497}, {"speed": 65497, "hex": True}]))
    return F


# the largest value Extended / Super Extended Color BASIC accepts for an operand (constants up to here are part of the
# language: CLS 9..255 clears the screen and prints the MICROSOFT banner, LOCATE 79,23 is the last cell of the 80-column
# screen ...).  Operands not listed keep an ordinary constant.
LEGAL_MAX = {("CLS", "c"): 255, ("LOCATE", "x"): 79, ("LOCATE", "y"): 23, ("ATTR", "f"): 7, ("ATTR", "b"): 7, ("HSCREEN", "n"): 4,
             ("SOUND", "f"): 255, ("SOUND", "d"): 255, ("PALETTE", "r"): 15, ("PALETTE", "c"): 63, ("HCOLOR", "f"): 15, ("HCOLOR", "b"): 15,
             ("HCLS", "c"): 15, ("WIDTH", "n"): 80, ("SET", "x"): 63, ("SET", "y"): 31, ("SET", "c"): 8, ("RESET", "x"): 63, ("RESET", "y"): 31,
             ("HSET", "x"): 639, ("HSET", "y"): 191, ("HSET", "c"): 15, ("HRESET", "x"): 639, ("HRESET", "y"): 191, ("HPRINT", "x"): 79,
             ("HPRINT", "y"): 23, ("HPAINT", "x"): 639, ("HPAINT", "y"): 191, ("HPAINT", "c"): 15, ("HPAINT", "b"): 15,
             ("HCIRCLE", "x"): 639, ("HCIRCLE", "y"): 191, ("HCIRCLE", "c"): 15, ("HLINE", "x1"): 639, ("HLINE", "y1"): 191,
             ("HLINE", "x0"): 639, ("HLINE", "y0"): 191, ("POKE", "v"): 255}


def _sum_vars():
    e = ("var", "P0")
    for i in range(1, 7):
        e = ("bin", "+", ("bin", "*", e, X.num(2)), ("var", "P%d" % i))
    return e


def build_stmt(kind_name, req, present, extra, kinds):
    o = dict((k, v) for k, v in extra.items() if k not in ("tkind", "speed", "hex"))
    names = DV.OPERANDS[kind_name]
    k = 0
    for nm in names:
        if nm in req or nm in present:
            okind = kinds[k % len(kinds)]
            if nm == "t" and extra.get("tkind") == "long":
                # a text as wide as the 40-column screen (the runtime's text parameter holds 80 characters whatever the
                # program's string size is)
                long_t = "Press any key to START the game - Enjoy!"
                o[nm] = ("str", long_t) if okind not in ("expr", "tmp") else ("bin", "+", ("str", long_t[:24]), ("str", long_t[24:]))
            elif nm == "t" and extra.get("tkind") == "odd":
                # characters a line-splitting routine of the host language takes for line ends (not the tool's grammar)
                odd_t = "PAGE" + "\x0b\x0c\x1c\x1d\x1e\x85\u2028\u2029"[(k + len(kinds)) % 8] + "TWO"
                o[nm] = ("str", odd_t) if okind not in ("expr", "tmp") else ("bin", "+", ("str", odd_t[:5]), ("str", odd_t[5:]))
            elif nm in ("s", "t") and kind_name in ("HDRAW", "PLAY") or (nm == "t" and extra.get("tkind") == "str"):
                o[nm] = str_operand(okind, k)
            elif okind == "big" and (kind_name, nm) in LEGAL_MAX:
                o[nm] = X.num(LEGAL_MAX[(kind_name, nm)])
            else:
                o[nm] = operand(okind, k)
            k += 1
        else:
            o[nm] = None
    if kind_name == "POKE" and extra.get("speed"):
        v = extra["speed"]
        o["a"] = ("hex", v, "%X" % v) if extra.get("hex") else X.num(v)
    return ("dev", kind_name, o)


def expected_events(cb_events):
    out = []
    for ev in cb_events:
        if ev[0] == "dev":
            out.append(tuple(ev[2:]))
        elif ev[0] == "call" and ev[1] in ("BUTTON", "JOYSTK", "POINT", "INKEY$"):
            proc = {"BUTTON": "ecb_button", "JOYSTK": "ecb_joystk", "POINT": "ecb_point", "INKEY$": "inkey"}[ev[1]]
            names = {"BUTTON": ["button"], "JOYSTK": ["joystk"], "POINT": ["x", "y"], "INKEY$": []}[ev[1]]
            out.append(("run", proc, dict(zip(names, ev[2])), "tape%d" % int(float(str(ev[3]).lstrip("K")))))
        elif ev[0] == "at":
            out.append(("run", "ecb_at", {"location": ev[1]}))
    return out


PROLOGUE = {"_ecb_start", "_ecb_init_hbuff", "_ecb_input_prefix", "_ecb_input_suffix"}


def actual_events(b_events, lib):
    out = []
    for ev in b_events:
        if ev[0] == "run":
            name = ev[1]
            if name in PROLOGUE:
                continue
            params = [p[0] for p in lib[name]["params"]] if name in lib else None
            vals = list(ev[2])
            if params is None:
                out.append(("run", name, {"arg%d" % i: v for i, v in enumerate(vals)}, len(vals), None) +
                           (("tape%d" % int(ev[3]),) if len(ev) > 3 else ()))
                continue
            d = {}
            for nm, v in zip(params, vals):
                d[nm] = v
            out.append(("run", name, d, len(vals), len(params)) + (("tape%d" % int(ev[3]),) if len(ev) > 3 else ()))
        elif ev[0] == "poke":
            out.append(("poke", ev[1], ev[2]))
    return out


def same(expected, got):
    if expected == DV.DISPLAY or expected == DV.PLAY:
        return got == expected
    if expected == "PID":
        return got == 7
    if isinstance(expected, tuple) and expected == ("display.hfore",):
        return got == 9.0 or got == 9
    return harness.same_value(expected, got)


def run_case(case):
    obs = {"counters": {}, "viols": [], "sets": {}}
    kinds = case["kinds"]
    if case["form"].startswith("FN:"):
        fname = case["form"][3:]
        kind_name, present, extra = fname, (), {}
        nargs = {"BUTTON": 1, "JOYSTK": 1, "POINT": 2, "INKEY$": 0}[fname]
        call = ("fn", fname, [operand(kinds[j % len(kinds)], j) for j in range(nargs)])
        if fname == "INKEY$":
            stmt = ("let", ("var", "R$"), ("bin", "+", call, ("fn", "INKEY$", [])), False)
        else:
            stmt = ("let", ("var", "R"), ("bin", "+", call, ("fn", fname, [X.num(j + 1) for j in range(nargs)])), False)
        stmts = [stmt]
    else:
        F = {f[0] + "#%d" % i: f for i, f in enumerate(forms())}
        fkey = case["form"]
        kind_name, req, pats, extras = F[fkey]
        present = pats[case["pat"] % len(pats)]
        extra = extras[case["extra"] % len(extras)]
        stmt = build_stmt(kind_name, req, present, extra, kinds)
        stmts = [stmt]
    if kind_name in ("HGET", "HPUT"):
        # a buffer must exist before it is used (Color BASIC reports an error otherwise)
        stmts.insert(0, ("dev", "HBUFF", {"b": X.num(1), "s": X.num(100)}))
    if kind_name == "POKE" and extra.get("speed"):
        stmts.append(("dev", "SOUND", {"f": X.num(1), "d": X.num(2)}))
    if case.get("second") and not case["form"].startswith("FN:"):
        stmts.append(("dev", "SOUND", {"f": operand("var", 0), "d": operand("tmp", 1)}))
    if case.get("late"):
        # the statement directly before the device statement changes the variables its operands read: whatever the tool
        # computes ahead of the statement must be computed after this
        stmts.insert(0, ("let", ("var", "C"), ("bin", "+", ("var", "C"), X.num(4)), False))
        stmts.insert(0, ("let", ("var", "A"), ("bin", "+", ("var", "A"), X.num(1)), False))
    prog = [(10, SETUP), (20, stmts)]
    if case.get("in_if"):
        prog = [(10, SETUP), (20, [("if", ("bin", "=", ("var", "A"), X.num(3)), ("stmts", stmts), [], None)])]
    if "bare" in kinds or "bareb" in kinds or "barez" in kinds:
        vals = [10, 20, 6, 2, 1, 0.75, 0.25]
        if "barez" in kinds:
            # every operand a variable that holds 0 (the value a library procedure is likeliest to "correct" in place)
            vals = [0] * 7
        elif "bare" not in kinds:
            # the largest legal value of each operand of this statement (the last column, the last row ...)
            k_ = 0
            for nm_ in DV.OPERANDS[kind_name]:
                if nm_ in req or nm_ in present:
                    if (kind_name, nm_) in LEGAL_MAX and k_ < len(vals):
                        vals[k_] = LEGAL_MAX[(kind_name, nm_)]
                    k_ += 1
        prog.insert(1, (12, [("let", ("var", "P%d" % i), ("num", float(v), [("%g" % v).lstrip("0") or "0"]), False) for i, v in enumerate(vals)]))
        # ... and they are all used again afterwards
        prog.append((40, [("let", ("var", "Q"), _sum_vars(), False)]))
    if case.get("openline"):
        # an earlier line ends in a string constant without closing quote (legal at the end of a line): the quotation marks
        # of the lines behind it still pair up the way each line pairs them
        prog.insert(1, (15, [("let", ("var", "Q$"), ("ostr", "it's open"), False)]))
    if case.get("data"):
        # the program also holds DATA items spelled exactly like the statement's numeric constants, one of them empty
        # (which makes the tool turn every DATA item into a string): constants elsewhere must not change with them
        lits = []

        def grab(x):
            if isinstance(x, tuple) and x and x[0] == "num" and len(x) > 2 and x not in lits:
                lits.append(x)
            elif isinstance(x, (tuple, list)):
                for y in x:
                    grab(y)
            elif isinstance(x, dict):
                for y in x.values():
                    grab(y)
        grab(stmts)
        prog.append((30, [("data", [("n", v[1], list(v[2])) for v in lits[:4]] + [("u", ""), ("n", 7.0, ["7"])])]))
    text = render(prog)
    obs["key"] = "%s|%s|%s|%s|%s" % (kind_name, present, sorted((k, str(v)) for k, v in extra.items()), kinds, str(case.get("in_if")) + ("+late" if case.get("late") else "") + ("+data" if case.get("data") else "") + ("+open" if case.get("openline") else "") + ("+bundle" if case.get("bundle") else ""))
    obs["sets"]["forms"] = ["%s%s" % (kind_name, list(present))]
    cb = harness.run_cb(prog)
    bundle_procs = None
    if case.get("bundle"):
        # the program behind its runtime procedures (the command line's default): its last procedure is the same program
        conv = harness.convert(text, initialize_vars=case.get("init", False), output_dependencies=True, procname="prog")
        if conv["ok"]:
            allp, perr = harness.parse_b09(conv["out"])
            if allp is None:
                obs["viols"].append({"sig": "C04/%s/bundle-unparseable" % kind_name, "detail": {"source": text[-300:], "error": perr}})
                return obs
            bundle_procs = [allp[-1]]
            conv["out"] = conv["out"][conv["out"].lower().rfind("procedure prog"):]
    else:
        conv = harness.convert(text, initialize_vars=case.get("init", False))
    if cb["status"] != "ok" or not conv["ok"]:
        obs["nontrivial"] = False
        obs["counters"]["dropped_source_%s" % cb["status"] if cb["status"] != "ok" else "not_converted"] = 1
        if cb["status"] == "ok" and not conv["documented"]:
            obs["counters"]["internal_error"] = 1
        if cb["status"] == "ok":
            # every form of the workload is a legal statement with legal operands: it must be converted
            obs["nontrivial"] = True
            obs["viols"].append({"sig": "C04/%s/valid-statement-%s" % (kind_name, "refused" if conv["documented"] else "internal-error"),
                                 "detail": {"source": text[-300:], "exception": conv.get("exc"), "message": conv.get("msg")}})
        return obs
    b = harness.run_b09(conv["out"], procs=bundle_procs)
    detail = {"source": text.split("\n")[1][:300], "emitted": [ln for ln in conv["out"].split("\n") if ln.startswith("20 ") or ln.startswith("  ")][:6]}
    numeric_hprint = kind_name == "HPRINT" and extra.get("tkind") == "num"
    if b["status"] != "ok":
        sig = "C04/%s/b09-%s" % (kind_name, b["status"])
        if numeric_hprint and (b["error"] or {}).get("typeclash"):
            sig = "C04/HPRINT/numeric-item-through-numeric-temporary"
        obs["viols"].append({"sig": sig, "detail": dict(detail, error=b["error"])})
        return obs
    clob = [m_ for m_ in b.get("mismatches", ()) if m_ and m_[0] == "clobbered-argument"]
    obs["counters"]["shadow_runs"] = b.get("shadow_runs", 0)
    if clob:
        # BASIC09 passes variables by reference: a runtime procedure that assigns to one of its parameters changes the
        # program's variable (found by running the procedure's body once on copies of the arguments)
        obs["viols"].append({"sig": "C04/%s/runtime-procedure-changes-the-callers-variable" % kind_name,
                             "detail": dict(detail, clobbered=[list(map(str, m_[1:])) for m_ in clob][:4])})
    if b.get("shadow_subscript") and set(kinds) <= {"lit", "big", "zero", "bare", "bareb", "barez"}:
        # the statement is legal (operands of these kinds are constants within each operand's documented range - the source
        # model does not police every range itself), and the body of its runtime procedure, run on the operands it was
        # handed, indexes outside one of the procedure's arrays
        obs["viols"].append({"sig": "C04/%s/runtime-procedure-subscript-out-of-range" % kind_name,
                             "detail": dict(detail, errors=[list(x) for x in b["shadow_subscript"]][:3])})
    lib = harness.library()
    exp = expected_events(cb["events"])
    got = actual_events(b["events"], lib)
    obs["counters"]["events_compared"] = len(exp)
    uses_hbuff = kind_name in ("HBUFF", "HGET", "HPUT")
    if case["form"].startswith("FN:"):
        stmt = ("dev", "CLS", {"c": None})
    has_prologue = any(ev[0] == "run" and ev[1] == "_ecb_init_hbuff" for ev in b["events"])
    if uses_hbuff != has_prologue:
        obs["viols"].append({"sig": "C04/hbuff-prologue/" + ("missing" if uses_hbuff else "unneeded"), "detail": detail})
    if kind_name in ("HGET", "HPUT"):
        # "exactly when the program uses HBUFF": the same program without its HBUFF statement (not runnable in Color
        # BASIC, but convertible) must come out without the buffer prologue
        stmts2 = [st for st in stmts if not (st[0] == "dev" and st[1] == "HBUFF")]
        prog2 = [(10, SETUP), (20, stmts2 if not case.get("in_if") else
                               [("if", ("bin", "=", ("var", "A"), X.num(3)), ("stmts", stmts2), [], None)])]
        conv2 = harness.convert(render(prog2), initialize_vars=case.get("init", False))
        obs["counters"]["prologue_only_checks"] = 1
        if conv2["ok"] and "_ecb_init_hbuff" in conv2["out"]:
            obs["viols"].append({"sig": "C04/hbuff-prologue/unneeded-without-HBUFF", "detail": dict(detail, source2=render(prog2)[-200:])})
    exp2 = [e for e in exp if e[0] != "octo"]
    got2 = got
    if len(exp2) != len(got2):
        # octo events have no counterpart among RUN/POKE events
        pass
    if len(exp2) != len(got2):
        obs["viols"].append({"sig": "C04/%s/event-count" % kind_name, "detail": dict(detail, expected=str(exp2)[:400], got=str(got2)[:400])})
        return obs
    for e, g in zip(exp2, got2):
        if e[0] == "poke":
            if g[0] != "poke" or not harness.same_value(e[1], g[1]) or not harness.same_value(e[2], g[2]):
                obs["viols"].append({"sig": "C04/POKE/operands", "detail": dict(detail, expected=e, got=g)})
            continue
        proc, params = e[1], e[2]
        if g[0] != "run" or g[1] != proc:
            obs["viols"].append({"sig": "C04/%s/wrong-procedure" % kind_name, "detail": dict(detail, expected=proc, got=g[1] if len(g) > 1 else g)})
            break
        if g[4] is not None and g[3] != g[4]:
            obs["viols"].append({"sig": "C04/arity/%s/%d-for-%d" % (proc, g[3], g[4]), "detail": dict(detail, got=str(g)[:300])})
            continue
        bad = [(k, v, g[2].get(k, "<absent>")) for k, v in params.items() if not same(v, g[2].get(k, "<absent>"))]
        if bad:
            k0 = bad[0][0]
            # diagnosis: is the value sitting under another parameter name (swap) or nowhere (wrong value / default)?
            elsewhere = [k for k, v in g[2].items() if same(bad[0][1], v) and k != k0]
            cls = "swapped-with-" + elsewhere[0] if elsewhere else ("wrong-default" if DV_default(kind_name, k0, stmt) else "wrong-value")
            sig = "C04/%s/%s/%s" % (proc, k0, cls)
            if numeric_hprint and proc == "ecb_hprint" and k0 == "txt":
                sig = "C04/HPRINT/numeric-item-through-numeric-temporary"
            obs["viols"].append({"sig": sig, "detail": dict(detail, mismatches=str(bad)[:300])})
        if len(e) > 3 and (len(g) < 6 or g[5] != e[3]):
            obs["viols"].append({"sig": "C04/%s/call-order" % proc, "detail": dict(detail, expected=e[3], got=g[5] if len(g) > 5 else None)})
    if case.get("sample"):
        obs["sample"] = {"source": detail["source"], "expected_events": str(exp2)[:300]}
    return obs


def DV_default(kind_name, pname, stmt):
    # true when the expected value came from a default (operand omitted in the source)
    o = stmt[2]
    m = {"color": "c", "n": "n" if kind_name == "HSCREEN" else "c", "b": "b", "c": "c", "rt": "ratio", "c0": "b", "x0": "x0", "y0": "y0",
         "bk": None, "undr": None, "v": None, "t": None, "rd": None, "m": None}
    src = m.get(pname, pname)
    return src is None or o.get(src) is None


def cases(tier, seed):
    F = forms()
    n = 0
    rng = random.Random(seed + 77)
    for fname in ("BUTTON", "JOYSTK", "POINT", "INKEY$"):
        for ks in [[k] for k in KINDS] + [["tmp", "dev"], ["dev", "var"], ["same"], ["rnd"]]:
            for in_if in (False, True):
                yield {"form": "FN:" + fname, "pat": 0, "extra": 0, "kinds": ks, "init": in_if, "in_if": in_if}
    for i, (kind_name, req, pats, extras) in enumerate(F):
        key = kind_name + "#%d" % i
        for p in range(len(pats)):
            for x in range(len(extras)):
                if tier == "quick":
                    kind_sets = [[KINDS[(n + j) % len(KINDS)] for j in range(7)], ["lit"], [rng.choice(KINDS) for _ in range(7)],
                                 ["tmp", "var", "dev", "expr", "arr", "par", "lit"], ["var"], ["tmp"], ["dev", "tmp"], ["neg"], ["not"],
                                 ["var", "neg", "lit", "not"], ["lit", "lit", "lit", "neg", "not", "neg", "not"], ["same"], ["rnd"],
                                 ["same", "lit"], ["lit", "rnd"], ["big"], ["zero"], ["lit", "big"], ["big", "zero", "big"], ["bare"], ["bareb"], ["barez"],
                                 [rng.choice(KINDS) for _ in range(7)]]
                else:
                    kind_sets = [[k] for k in KINDS] + [["same"], ["rnd"], ["bare"], ["bareb"], ["barez"], ["big"], ["zero"], ["lit", "big"], ["big", "lit"], ["big", "zero", "big"], ["same", "lit"], ["lit", "same"], ["rnd", "lit"], ["lit", "rnd"],
                                                        ["same", "rnd"], ["lit", "lit", "same"], ["same", "var", "same"]] + [list(t) for t in itertools.islice(itertools.permutations(KINDS, 7), 0, 181440, 9000)] + \
                                [[rng.choice(KINDS) for _ in range(7)] for _ in range(6)]
                if tier == "thorough":
                    # one operand at a time takes each kind while the others stay literals (full product per position)
                    nops = 7
                    for j in range(nops):
                        for kk in KINDS[1:]:
                            ks = ["lit"] * nops
                            ks[j] = kk
                            kind_sets.append(ks)
                    kind_sets += [[rng.choice(KINDS) for _ in range(7)] for _ in range(40)]
                for ks in kind_sets:
                    n += 1
                    yield {"form": key, "pat": p, "extra": x, "kinds": ks, "init": n % 2 == 0, "in_if": n % 5 == 0,
                           "second": n % 7 == 0, "sample": n % 200 == 0, "late": n % 3 == 0,
                           "data": n % 4 == 1, "openline": n % 5 == 2, "bundle": n % 6 == 4}
