"""C10 - every array and string gets exactly one declaration with the requested size.
Static monitor over DIM statements and identifier uses parsed from real convert() outputs; the expected
declaration table is computed from the abstract source program."""
import os
import random

from .. import harness
from ..b09ref import static
from ..cbref.ast import render
from ..cbref.interp import canon
from ..gen import exprs as X
from ..gen import progtools

PROPERTY = "C10"
LEVEL = "exploration"
RULE = ("case = program that puts variables of each kind (numeric/string scalar, numeric/string array, DIMensioned or implicit, "
        "1-3 dimensions) into chosen syntactic positions (assignment target, expression, only inside function arguments, only "
        "READ/INPUT target, only subscript, only PRINT, VARPTR) x default_str_storage in {1,2,16,31,32,33,80,100,128,255} x random valid per-name "
        "size maps x initialize_vars; distinct = (set of (kind, positions), storage, map); non-trivial = declaration table checked")
ASSUMPTIONS = ["the expected table: source bound + 1 per dimension, 11 per used dimension for never DIMensioned arrays; string size = "
               "per-name size if DIMensioned in the source and configured, else the requested default"]
REQUIRED_COUNTERS = ["tables_checked"]

POSITIONS = ["target", "expr", "fnarg", "read", "input", "subscript", "print", "varptr", "fnarg_conv",
             "in_then", "in_else", "in_elif_noelse", "in_elif_else", "in_then_nested", "for_start", "for_limit", "for_step",
             "on_selector", "print_at", "dev_operand"]


def use_stmt(rng, v, pos, nd):
    """One statement using variable v (a ('var',..) or ('arr',..) node factory) in position pos."""
    is_s = v[1].endswith("$")
    lit = ("str", "X") if is_s else X.num(rng.randint(0, 3))
    if pos in ("for_start", "for_limit", "for_step", "on_selector", "print_at", "dev_operand"):
        e = ("fn", "LEN", [v]) if is_s else v
        if pos == "on_selector":
            return ("on", e, "GOTO", [10])
        if pos == "print_at":
            return ("print", [("e", ("str", "X"))], e)
        if pos == "dev_operand":
            return ("dev", "SOUND", {"f": e, "d": X.num(1)})
        a, b, st = X.num(0), X.num(3), None
        if pos == "for_start":
            a = e
        elif pos == "for_limit":
            b = e
        else:
            st = ("bin", "+", e, X.num(1))
        return ("forline", a, b, st)
    if pos.startswith("in_"):
        # the only occurrence sits in one arm of an IF: every pass has to look into every arm
        use = ("let", v, lit, False) if rng.random() < 0.6 else ("let", ("var", "R"), ("fn", "LEN", [v]) if is_s else ("fn", "ABS", [v]), False)
        other = ("stmts", [("let", ("var", "R"), X.num(1), False)])
        c1 = ("bin", "=", ("var", "R"), X.num(1))
        c2 = ("bin", "=", ("var", "R"), X.num(2))
        arm = ("stmts", [use])
        if pos == "in_then":
            return ("if", c1, arm, [], None if rng.random() < 0.5 else other)
        if pos == "in_else":
            return ("if", c1, other, [], arm)
        if pos == "in_elif_noelse":
            return ("if", c1, other, [(c2, arm)], None)
        if pos == "in_elif_else":
            return ("if", c1, other, [(c2, arm)], other)
        return ("if", c1, ("stmts", [("if", c2, arm, [], None)]), [], None)
    if pos == "target":
        return ("let", v, lit, False)
    if pos == "expr":
        return ("let", ("var", "R$" if is_s else "R"), ("bin", "+", v, lit), False)
    if pos == "fnarg":
        return ("let", ("var", "R"), ("fn", "LEN", [v]) if is_s else ("fn", "ABS", [v]), False)
    if pos == "fnarg_conv":
        return ("let", ("var", "R"), ("fn", "LEN", [("fn", "LEFT$", [v, ("fn", "INT", [X.num(1)])])]) if is_s
                else ("fn", "SGN", [("fn", "INT", [v])]), False)
    if pos == "read":
        return ("read", [v])
    if pos == "input":
        return ("input", None, [v], False)
    if pos == "subscript":
        if is_s:
            return ("let", ("arr", "W", [("fn", "LEN", [v])]), X.num(1), False)
        return ("let", ("arr", "W", [v]), X.num(1), False)
    if pos == "print":
        return ("print", [("e", v)], None)
    if pos == "varptr":
        return ("let", ("var", "R"), ("fn", "VARPTR", [v]), False)
    raise ValueError(pos)


NAMES = ["A", "B", "C", "K", "M", "N", "P", "Q", "T", "U", "XY", "Z9"]


def build(case):
    rng = random.Random(case["seed"])
    nvars = rng.randint(1, 5)
    spec = []      # (name, is_str, ndims(0 scalar), dimmed bounds or None, positions)
    if rng.random() < 0.35:
        # one name in several of its four kinds (scalar / array, numeric / string are four different variables), so that
        # look-alike entries meet in one DIM statement
        base = rng.choice(NAMES)
        idents = rng.sample([(base, s_, a_) for s_ in (False, True) for a_ in (False, True)], rng.randint(2, 4))
        idents += [(nm, None, None) for nm in rng.sample([x for x in NAMES if x != base], max(0, nvars - len(idents)))]
    else:
        idents = [(nm, None, None) for nm in rng.sample(NAMES, nvars)]
    for nm, fs, fa in idents:
        is_s = rng.random() < 0.55 if fs is None else fs
        nd = rng.choice([0, 0, 1, 1, 2, 3]) if fa is None else (rng.choice([1, 1, 2]) if fa else 0)
        dimmed = None
        if rng.random() < (0.5 if nd <= 1 else 0.85):
            dimmed = [rng.choice([0, 1, 3, 5, 10, 12, 255]) for _ in range(nd)]
        npos = rng.choice([1, 1, 2, 2, 3])
        poss = rng.sample(POSITIONS, npos)
        if rng.random() < 0.8 and not (set(poss) & {"target", "expr", "print", "fnarg", "subscript", "fnarg_conv"}):
            # most variables also occur somewhere the passes look (keeps the known READ/INPUT/VARPTR-only
            # mechanisms to a minority of the workload)
            poss.append(rng.choice(["target", "expr", "print", "fnarg"]))
        spec.append((nm + ("$" if is_s else ""), is_s, nd, dimmed, poss))
    prog = []
    ln = 10
    dims = [(n, b, [("&H%X" % x if rng.random() < 0.2 else str(x)) for x in b]) for n, s, nd, b, p in spec if b is not None]
    # the README asks for DIM before use; a DIM placed late (e.g. in an initialisation subroutine at the end of the
    # listing) is still one declaration with the source's bounds -- only the "before first use" clause is waived then
    dim_late = bool(dims) and rng.random() < 0.12
    if rng.random() < 0.15:
        # CLEAR n (string space of the CoCo, below and above the requested sizes): no bearing on any declaration
        prog.append((ln - 5, [("raw", ["CLEAR", str(rng.choice([10, 50, 100, 200, 1000]))])]))
    if dims and not dim_late:
        prog.append((ln, [("dim", dims)]))
        ln += 10
    data_needed = 0
    for n, s, nd, b, poss in spec:
        for pos in poss:
            if nd:
                bound = (b or [10] * nd)
                node = ("arr", n, [X.num(rng.randint(0, min(3, bd))) for bd in bound])
            else:
                node = ("var", n)
            st = use_stmt(rng, node, pos, nd)
            if st[0] == "forline":
                prog.append((ln, [("for", "FI", st[1], st[2], st[3]), ("next", ["FI"])]))
            else:
                prog.append((ln, [st]))
            if pos == "read":
                data_needed += 1
            ln += 10
    if dim_late:
        prog.append((ln, [("dim", dims)]))
        ln += 10
    if data_needed:
        prog.append((ln, [("data", [("q", "D")] * data_needed)]))
    return prog, spec, dim_late


def expected_table(spec, storage, cfg):
    arrays = {}
    strings = {}
    for n, s, nd, b, poss in spec:
        c = canon(n).lower()
        if nd:
            ident = "arr_" + c
            arrays[ident] = [x + 1 for x in b] if b is not None else [11] * nd
        else:
            ident = c
        if s:
            key = canon(n) + ("()" if nd else "")
            size = cfg.get(key, storage) if b is not None else storage
            strings[ident] = size
    return arrays, strings


def classify_positions(poss, nd=1):
    p = set(poss)
    if p <= {"varptr"}:
        return "VARPTR-only"
    if p <= {"read", "input"}:
        return "READ-INPUT-target-only"
    if nd and p <= {"read", "input", "varptr"}:
        # for ARRAYS both kinds of position are invisible to the passes (a scalar VARPTR operand is visited)
        return "READ-INPUT-target-only"
    if p <= {"fnarg", "fnarg_conv"}:
        return "function-argument-only"
    if p <= {"subscript"}:
        return "subscript-only"
    return "other"


_TAGGED = {}


def tagged_declarations():
    """procedure -> names declared with the size placeholder in the current ecb.b09 (read from the raw text)."""
    if not _TAGGED:
        import re
        from .. import boot

        cur = None
        for ln in open(os.path.join(boot.REPO, "coco", "resources", "ecb.b09")).read().split("\n"):
            m = re.match(r"(?i)^\s*procedure\s+(\S+)", ln)
            if m:
                cur = m.group(1).lower()
                continue
            m = re.match(r"(?i)^\s*(?:param|dim)\s+([\w$, ]+?)\s*:\s*string<<>>", ln)
            if m and cur:
                for nm in m.group(1).split(","):
                    _TAGGED.setdefault(cur, set()).add(nm.strip().lower())
    return _TAGGED


def run_bundle(case):
    """The strings of the bundled runtime procedures are strings of the emitted program too: every declaration the library
    writes with the size placeholder has the requested size in the bundle (and no explicit size when that is 32)."""
    obs = {"counters": {}, "viols": [], "sets": {}}
    storage = case["storage"]
    obs["key"] = "bundle|%s|%d" % (case["text"], storage)
    conv = harness.convert(case["text"], default_str_storage=storage, output_dependencies=True, procname="prog", initialize_vars=case.get("init", False))
    if not conv["ok"]:
        obs["nontrivial"] = False
        obs["counters"]["not_converted"] = 1
        return obs
    procs, err = harness.parse_b09(conv["out"])
    if procs is None:
        obs["viols"].append({"sig": "C10/bundle/unparseable", "detail": {"source": case["text"], "storage": storage, "error": err}})
        return obs
    tagged = tagged_declarations()
    n = 0
    for pr in procs[:-1]:
        want = tagged.get(pr.name.lower(), set())
        if not want:
            continue
        for name, dims, ty, kind, idx in static.analyse(pr).decls:
            if name.lower() in want:
                n += 1
                size = ty[1] if len(ty) > 1 else 32
                if ty[0] != "STRING" or size != storage:
                    obs["viols"].append({"sig": "C10/bundle/library-string-size", "detail": {
                        "source": case["text"], "storage": storage, "procedure": pr.name, "name": name, "declared": list(ty)}})
    # ... and a string of a bundled procedure that is filled from one of those sized strings holds as much as they do: a
    # local left at BASIC09's 32 bytes (no size, no tag) silently cuts what the sized parameters carry.  (A piece of known
    # length - MID$ / LEFT$ / RIGHT$ with a constant count that fits - is not "filled from" the string.)
    flows = 0
    for pr in procs[:-1]:
        sizes = {}
        for name, dims, ty, kind, idx in static.analyse(pr).decls:
            if ty[0] == "STRING":
                sizes[name] = ty[1] if len(ty) > 1 else 32
        for st in pr.body:
            if st.k != "assign" or st.lv[1] not in sizes:
                continue
            e = st.e
            if e[0] == "call" and e[1] in ("MID$", "LEFT$", "RIGHT$") and e[2][-1][0] == "num" and e[2][-1][1] <= sizes[st.lv[1]]:
                continue
            srcs = set()
            static.walk(e, lambda x: srcs.add(x[1]) if x[0] == "ref" and x[1] in sizes else None)
            flows += 1
            big = sorted(s_ for s_ in srcs if sizes[s_] > sizes[st.lv[1]])
            if big:
                obs["viols"].append({"sig": "C10/bundle/library-string-smaller-than-its-source", "detail": {
                    "source": case["text"], "storage": storage, "procedure": pr.name, "name": st.lv[1], "size": sizes[st.lv[1]],
                    "filled_from": big, "their_sizes": [sizes[b_] for b_ in big]}})
    obs["counters"]["library_string_flows_checked"] = flows
    obs["counters"]["library_string_declarations"] = n
    obs["counters"]["declarations_checked"] = n
    obs["nontrivial"] = n > 0
    return obs


def run_case(case):
    if case.get("bundle"):
        return run_bundle(case)
    if case.get("fixed"):
        prog, spec = [(n, list(st)) for n, st in case["fixed"]], [tuple(x) for x in case.get("spec", [])]
        dim_late = False
    else:
        prog, spec, dim_late = build(case)
    storage = case["storage"]
    rng = random.Random(case["seed"] + 5)
    cfg = {}
    for n, s, nd, b, poss in spec:
        if s and rng.random() < 0.5:
            cfg[canon(n) + ("()" if nd else "")] = rng.choice([5, 40, 100, 300, 32, 32, 31, 33, 1])
    if rng.random() < 0.3:
        cfg["ZZ$"] = 77
    text = render(prog)
    obs = {"counters": {}, "viols": [], "sets": {}}
    obs["key"] = "%s|%d|%s" % (sorted((s, nd, b is not None, tuple(sorted(p))) for n, s, nd, b, p in spec), storage, sorted(cfg.items()))
    try:
        from coco.b09.configs import CompilerConfigs, StringConfigs

        cc = CompilerConfigs(string_configs=StringConfigs(strname_to_size=cfg))
    except Exception:  # noqa: BLE001
        obs["nontrivial"] = False
        return obs
    opts = {"default_str_storage": storage, "initialize_vars": case["init"]}
    conv = harness.convert(text, compiler_configs=cc, **opts)
    if not conv["ok"]:
        obs["nontrivial"] = False
        obs["counters"]["not_converted"] = 1
        return obs
    procs, err = harness.parse_b09(conv["out"])
    if procs is None:
        obs["nontrivial"] = False
        obs["counters"]["unparseable_output"] = 1
        return obs
    obs["counters"]["tables_checked"] = 1
    main = procs[-1]
    inf = static.analyse(main)
    arrays, strings = expected_table(spec, storage, cfg)
    byname = {}
    for name, dims, ty, kind, idx in inf.decls:
        byname.setdefault(name, []).append((dims, ty, idx))
    first_use = {}
    for name, idx, nsub, fld in inf.uses:
        if main.body[idx].k in ("dim", "param", "type"):
            continue
        first_use.setdefault(name, idx)
    posmap = {}
    for n, s, nd, b, poss in spec:
        posmap[("arr_" if nd else "") + canon(n).lower()] = (classify_positions(poss, nd), nd, b is not None)

    def v(sig, **kw):
        obs["viols"].append({"sig": sig, "detail": dict(kw, source=text[:700], options=opts, config=cfg,
                                                        emitted_decls=[ln for ln in conv["out"].split("\n") if ln.strip().upper().startswith("DIM")][:12])})

    # duplicates
    for name, lst in byname.items():
        if len(lst) > 1:
            v("C10/duplicate/" + ("joystick-prologue" if name.startswith("joy") else ("array" if name.startswith("arr_") else "scalar")), name=name)
    # arrays
    for ident, dims in arrays.items():
        cls, nd, dimmed = posmap[ident]
        d = byname.get(ident)
        used = ident in first_use
        if not d:
            if used:
                v("C10/array-undeclared/" + cls, name=ident)
            continue
        if list(d[0][0]) != dims:
            kindd = "implicit-multidim" if (not dimmed and nd > 1) else ("implicit" if not dimmed else "dimmed")
            v("C10/dims/" + kindd, name=ident, declared=list(d[0][0]), expected=dims)
        if used and d[0][2] > first_use[ident] and not dim_late:
            v("C10/declared-after-use", name=ident)
    # scalars the source DIMensions: BASIC09 takes a name's type from its first mention, so the declaration comes first
    # (an assignment in front of it would make the name an implicit REAL / 32-byte string and the DIM a second declaration)
    if not dim_late:
        for ident, (cls_, nd_, dimmed_) in posmap.items():
            d = byname.get(ident)
            if dimmed_ and not nd_ and d and ident in first_use and d[0][2] > first_use[ident]:
                v("C10/declared-after-use/scalar", name=ident)
    # strings
    if storage != 32:
        present = set(n for n in first_use if n.endswith("$")) | set(n for n in byname if n.endswith("$"))
        for ident in sorted(present):
            want = strings.get(ident, storage)
            d = byname.get(ident)
            if ident.startswith("tmp_"):
                cls = "temporary"
            elif ident in posmap:
                c, nd, dimmed = posmap[ident]
                cls = ("dimmed-" if dimmed else "implicit-") + ("array" if nd else "scalar") + "/" + c
            else:
                cls = "helper-variable"
            if not d or d[0][1] is None:
                # no explicit size: BASIC09 makes it 32 bytes - which is what is wanted when the configuration file says 32
                if want != 32:
                    v("C10/string-size/missing/" + cls, name=ident, expected=want)
            elif d[0][1][0] != "STRING" or (d[0][1][1] if len(d[0][1]) > 1 else 32) != want:
                v("C10/string-size/wrong/" + cls, name=ident, declared=d[0][1], expected=want)
    if case.get("sample"):
        obs["sample"] = {"source": text[:300], "storage": storage, "config": cfg, "expected_arrays": arrays, "expected_strings": strings}
    return obs


STORAGES = [32, 33, 80, 255, 1, 16, 31, 128, 2, 100]


def cases(tier, seed):
    n = 3000 if tier == "quick" else 400000
    yield {"seed": 1, "storage": 80, "init": True,
           "fixed": [(10, [("let", ("var", "A"), ("fn", "JOYSTK", [X.num(0)]), False)])]}
    for st in (80, 16, 255):
        for tgt, nm in ((("input", None, [("var", "A$")], True), "input"), (("read", [("var", "A$")]), "read")):
            # a string filled only by LINE INPUT / READ (which no pass looks at) and used only in VARPTR: the VARPTR use is
            # what gets it declared
            yield {"seed": st, "storage": st, "init": st == 16,
                   "fixed": [(10, [tgt]), (20, [("let", ("var", "P"), ("fn", "VARPTR", [("var", "A$")]), False)]), (30, [("data", [("q", "D")])])],
                   "spec": [("A$", True, 0, None, [nm, "varptr"])]}
    # DIM lists far longer than any listing has them (a Color BASIC line holds some 28 two-letter string arrays; the emitted
    # DIM statement is then longer than 255 characters): every member keeps its size, however the statement is laid out
    long_names = [a + b + "$" for a in "AB" for b in "ABCDEFGHIJKLMN"]
    for st in (80, 16, 255):
        for init in (False, True):
            for cfg_ in (None, {"AC$()": 200, "BK$()": 5}):
                for scal in (False, True):
                    d_ = {"seed": st, "storage": st, "init": init,
                          "fixed": [(10, [("dim", [(nm, [] if scal else [1], [] if scal else ["1"]) for nm in long_names])]),
                                    (20, [("let", ("var", "AC$") if scal else ("arr", "AC$", [X.num(1)]), ("str", "X"), False)])]}
                    if cfg_:
                        d_["cfg"] = {(k.replace("()", "") if scal else k): v for k, v in cfg_.items()}
                    yield d_
    for text in ('10 PLAY "C"', '10 HDRAW "U4"', "10 A=INSTR(1,A$,B$)", "10 A$=STRING$(3,B$)", "10 A=VAL(A$)", "10 INPUT A$,B", "10 READ A\n20 DATA ,1",
                 '10 PLAY A$:HDRAW B$:A=VAL(A$)+INSTR(2,A$,"X"):PRINT STRING$(2,"*");HEX$(A)',
                 # a quotation mark without a partner in the program (a remark, a DATA item, a constant left open at the end of
                 # its line): the library text behind it is still the library text
                 '10 REM SAY "HI\n20 A=VAL(A$)', "10 A$=STRING$(3,B$) 'IT\"S A TUNE", '10 PLAY "C":READ B$\n20 DATA A"B',
                 '10 A=INSTR(1,A$,B$):PRINT "OPEN', '10 REM "\n20 REM ""\n30 HDRAW "U4":A=VAL(A$)'):
        for st in (1, 16, 32, 33, 128, 255):
            yield {"bundle": True, "text": text, "storage": st, "init": st % 2 == 0, "seed": 0}
    for i in range(n):
        yield {"seed": seed * 1299709 + i, "storage": STORAGES[i % len(STORAGES)], "init": (i // len(STORAGES)) % 2 == 0, "sample": i % 900 == 0}
