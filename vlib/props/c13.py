"""C13 - the emitted bundle contains exactly the procedures the program needs.
Post-condition monitor on convert(..., output_dependencies=True): order, uniqueness, closure over the library
call graph computed by the reference parser from the current ecb.b09, placeholder substitution, user text
untouched."""
import random
import re

from .. import boot, harness
from ..b09ref import static
from ..cbref.ast import render
from ..gen import exprs as X
from ..gen import progs

PROPERTY = "C13"
LEVEL = "exploration"
RULE = ("case = program using a random subset of runtime-using statements, with string literals / DATA items / comments that "
        "contain the words RUN ecb_x, PROCEDURE foo, ': STRING<<>>' and (comments only) odd numbers of quote characters, x "
        "procedure name x default string size in {1,16,31,32,64,200}; distinct = (set of bundled procedures, hostile text kind, size); "
        "non-trivial = a bundle was produced and checked")
ASSUMPTIONS = ["library call graph = RUN statements of each procedure as parsed by vlib/b09ref (strings, DATA and comments excluded)",
               "gfx2, gfx, syscall, inkey are OS-9 system modules"]
REQUIRED_COUNTERS = ["bundles_checked"]

HOSTILE = ['RUN ecb_hdraw', 'run ecb_play("X")', "PROCEDURE foo", "procedure ecb_cls", ": STRING<<>>", "X: STRING<<>>Y",
           "RUN", "A:B", "STRING<<>>", "RUN _ecb_width(1)", "(* RUN ecb_sound *)",
           # characters that some line-splitting routines (but not the tool's grammar) treat as line ends
           "PAGE\x0cTWO", "A\x0cPROCEDURE zed\x0cB", "X\x0bRUN ecb_sound", "L\x85M", "P\u2028Q\u2029R", "A\x1cB\x1dC\x1eD",
           "T\x0c",
           # the BASIC09 statement separator inside the user's text, followed by what would be a call
           "LOAD SONG \\ RUN ecb_play", "A \\ RUN ecb_hdraw(1)", "\\ RUN ecb_sound", "X\\RUN ecb_cls"]

_LIBTEXT = {}


def lib_proc_texts():
    """procedure name -> verbatim text block from the current library file (my own split, not the tool's)."""
    if not _LIBTEXT:
        text = open(boot.ecb_path()).read()
        cur = None
        buf = []
        for ln in re.split(r"\r\n|\r|\n", text):
            m = re.match(r"(?i)^\s*procedure\s+(\S+)\s*$", ln)
            if m:
                if cur:
                    _LIBTEXT[cur.lower()] = "\n".join(buf).strip()
                cur = m.group(1)
                buf = []
            buf.append(ln)
        if cur:
            _LIBTEXT[cur.lower()] = "\n".join(buf).strip()
    return _LIBTEXT


def lib_graph():
    lib = harness.library()
    g = {}
    for name, ent in lib.items():
        g[name] = sorted({r[0].lower() for r in ent["info"].runs})
    return g


def closure(roots, g):
    seen = set()
    stack = [r for r in roots]
    while stack:
        x = stack.pop()
        if x in seen or x not in g:
            continue
        seen.add(x)
        stack.extend(g[x])
    return seen


def make_program(rng, hostile):
    g = progs.ProgGen(rng, max_depth=1, ifs=rng.random() < 0.4, loops=False, jumps=False, handlers=False)
    lines = []
    n = 10
    kinds = rng.sample(progs.DEVICE_KINDS, rng.randint(0, 6))
    for k in kinds:
        lines.append((n, [g.device_stmt(k)]))
        n += 10
    for _ in range(rng.randint(0, 3)):
        lines.append((n, [g.simple_stmt()]))
        n += 10
    where = rng.choice(["str", "data", "rem", "rem2", "print", "none", "openarr", "openarr"]) if hostile else "none"
    if where == "str":
        lines.append((n, [("let", ("var", "H$"), ("str", hostile), False)]))
    elif where == "data":
        lines.append((n, [("data", [("q", hostile), ("u", hostile.replace(":", ";").replace(",", ";").replace('"', ""))]),
                          ("read", [("var", "H$"), ("var", "G$")])]))
    elif where == "rem":
        # unbalanced quotation marks before and after the hostile text (a comment is not a string context)
        lines.append((n, [("rem", rng.choice([" ", ' 5 1/4" DISK - ', ' "" " ', ' "']) + hostile + rng.choice(["", ' "', ' "" "']),
                           rng.choice(["REM", "'"]))]))
    elif where == "openarr":
        # a string constant without its closing quote, assigned to an array element whose subscript needs a runtime call:
        # the emitted line carries a RUN and a literal; both have to come through (balanced) for the scan to see the RUN
        txt = hostile.replace('"', "'")
        fn = rng.choice([("fn", "INT", [("var", "K")]), ("fn", "VAL", [("str", "1")]), ("fn", "INSTR", [("num", 1.0, ["1"]), ("str", "AB"), ("str", "B")])])
        lines.append((n, [("let", ("arr", "H$", [fn]), ("ostr", txt), False)]))
    elif where == "rem2":
        # the comment is the SECOND statement of its line: it is emitted on a line of its own, starting in column 0
        lines.append((n, [("let", ("var", "H"), ("num", 1.0, ["1"]), False), ("rem", " " + hostile, rng.choice(["REM", "'"]))]))
    elif where == "print":
        lines.append((n, [("print", [("e", ("str", hostile)), ("sep", ";"), ("e", ("var", "H$"))], None)]))
    n += 10
    if hostile and rng.random() < 0.4:
        # ... followed, further down, by a line with an unbalanced quotation mark (only comments can carry one)
        lines.append((n, [("rem", rng.choice([' SAY "HI', ' 5 1/4" DISK', ' "', ' A "B" C "']), rng.choice(["REM", "'"]))]))
        n += 10
    if not lines:
        lines.append((n, [("rem", " EMPTY", "REM")]))
    return lines, where


def strip_strings_comments(line):
    out = re.sub(r'"[^"]*"', '""', line)
    i = out.find("(*")
    if i >= 0:
        out = out[:i]
    return out


def cli_convert(text, stem, size, init, filt, deps=True):
    """The same conversion through the command line (file in, file out): -> result dict like harness.convert()"""
    import io
    import os
    import sys
    from coco import decb_to_b09
    from .. import run

    d = os.path.join(run.WORK, "c13-%d" % os.getpid())
    os.makedirs(d, exist_ok=True)
    src, dst = os.path.join(d, stem + ".bas"), os.path.join(d, "out.b09")
    with open(src, "w", newline="") as f:
        f.write(text)
    if os.path.exists(dst):
        os.remove(dst)
    argv = (["-s", str(size)] if size != 32 else []) + ([] if init else ["-z"]) + (["-l"] if filt else []) + ([] if deps else ["-D"]) + [src, dst]
    saved = (sys.stdout, sys.stderr)
    sys.stdout, sys.stderr = io.StringIO(), io.StringIO()
    try:
        decb_to_b09.start(argv)
        with open(dst, newline="") as f:
            return {"ok": True, "out": f.read().replace("\r", "\n")}
    except BaseException as exc:  # noqa: BLE001 - SystemExit included
        return {"ok": False, "exc": type(exc).__name__, "documented": True, "msg": str(exc)[:200]}
    finally:
        sys.stdout, sys.stderr = saved


def run_case(case):
    rng = random.Random(case["seed"])
    hostile = HOSTILE[case["seed"] % len(HOSTILE)] if case.get("hostile", True) else None
    if case.get("fixed_program"):
        text, where = case["fixed_program"], "rem"
    else:
        prog, where = make_program(rng, hostile)
        text = render(prog)
    size = case["size"]
    pname = case["procname"]
    opts = {"output_dependencies": True, "procname": pname, "default_str_storage": size,
            "initialize_vars": case["seed"] % 2 == 0, "filter_unused_linenum": case["seed"] % 3 == 0}
    if case.get("no_prefix"):
        # without the standard prologue nothing but the program's own statements pulls procedures in
        opts["add_standard_prefix"] = False
    obs = {"counters": {}, "viols": [], "sets": {}}
    if case.get("cli") and re.fullmatch(r"[a-zA-Z0-9_-]+", pname) and not case.get("no_prefix"):
        # through the command line: its -s / -z / -l are these options, its procedure name the input file's stem
        conv = cli_convert(text, pname, size, opts["initialize_vars"], opts["filter_unused_linenum"])
        obs["counters"]["cli_bundles"] = 1
    else:
        conv = harness.convert(text, **opts)
    plain = harness.convert(text, **dict(opts, output_dependencies=False))
    if not conv["ok"] or not plain["ok"]:
        obs["nontrivial"] = False
        obs["key"] = "refused"
        obs["counters"]["not_converted"] = 1
        return obs
    out = conv["out"]
    detail = {"source": text[:800], "options": opts, "hostile_text": hostile, "hostile_where": where}
    procs, err = harness.parse_b09(out)
    if procs is None and harness.parse_b09(plain["out"])[0] is not None:
        # the same program without bundling is well-formed: bundling damaged the text
        obs["key"] = "bundle-unparseable|%s" % where
        obs["counters"]["bundles_checked"] = 1
        obs["viols"].append({"sig": "C13/user-procedure-altered/unparseable-only-when-bundled",
                             "detail": dict(detail, parse_error=err, emitted=out[-400:])})
        return obs
    if procs is None:
        # ill-formed with and without bundling (C07's business) - but the bundle can still be judged for completeness,
        # lexically: RUN at the start of a statement (after the label or after a backslash), procedure headers by regex
        g = lib_graph()
        # (comments are no calls: each line is cut at the first comment opener that stands outside a string constant - a
        # remark that spells a RUN statement behind a backslash was taken for a call by this fallback, DESIGN 10.24)
        def no_comment(ln):
            # (... and what stands inside a string constant is blanked: it is no call either)
            instr = False
            out_ = []
            for k_, ch in enumerate(ln):
                if ch == '"':
                    instr = not instr
                    out_.append(ch)
                elif instr:
                    out_.append("_")
                elif ln.startswith("(*", k_):
                    break
                else:
                    out_.append(ch)
            return "".join(out_)

        body = "\n".join(no_comment(ln) for ln in plain["out"].split("\n"))
        roots = {m.lower() for m in re.findall(r"(?im)(?:^\d*[ \t]*|\\[ \t]*)RUN[ \t]+(\w+)\(", body)}
        need = closure([r for r in roots if r in g], g)
        got = {m.lower() for m in re.findall(r"(?im)^procedure[ \t]+(\S+)[ \t]*$", out)}
        missing = sorted(need - got)
        obs["counters"]["lexical_bundle_checks"] = 1
        if missing:
            obs["key"] = "lexical|%s|%s" % (",".join(sorted(need)), where)
            obs["counters"]["bundles_checked"] = 1
            obs["viols"].append({"sig": "C13/missing/" + missing[0], "detail": dict(detail, missing=missing, roots=sorted(roots), lexical=True)})
            return obs
        obs["nontrivial"] = False
        obs["key"] = "unparseable"
        obs["counters"]["unparseable_output"] = 1
        return obs
    obs["counters"]["bundles_checked"] = 1
    if not procs:
        # a bundle without any procedure: the program itself is missing from what was asked to contain it
        obs["key"] = "empty|%r" % pname
        obs["viols"].append({"sig": "C13/root-missing/no-procedure-in-output", "detail": dict(detail, emitted=out[:200])})
        return obs
    names = [(p.name or "").lower() for p in procs]
    expected_name = pname if re.fullmatch(r"[a-zA-Z0-9_-]+", pname) else "program"
    g = lib_graph()
    lib = harness.library()
    main = procs[-1]
    inf = static.analyse(main)
    roots = sorted({r[0].lower() for r in inf.runs})
    need = closure([r for r in roots if r in g], g)
    got = names[:-1]
    obs["key"] = "%s|%s|%d" % (",".join(sorted(need)), where, size)
    obs["sets"]["bundled"] = sorted(need)

    def v(sig, **kw):
        obs["viols"].append({"sig": sig, "detail": dict(detail, **kw)})

    if names[-1] != expected_name.lower():
        v("C13/root-not-last", names=names[-3:], expected=expected_name)
    if got != sorted(got):
        v("C13/not-sorted", got=got)
    if len(set(got)) != len(got):
        v("C13/duplicate-procedure", got=got)
    missing = sorted(need - set(got))
    extra = sorted(set(got) - need)
    if missing:
        v("C13/missing/" + missing[0], missing=missing, roots=roots)
    if extra:
        # diagnosis: is the extra procedure named after RUN inside a comment of the user's program?
        comments = " ".join(ln for ln in plain["out"].split("\n") if "(*" in ln).lower()
        explained = all(re.search(r"run\s+" + re.escape(x) + r"\b", comments) or
                        any(x in closure([y], g) for y in extra if re.search(r"run\s+" + re.escape(y) + r"\b", comments))
                        for x in extra)
        v("C13/unreachable/" + ("RUN-in-comment" if explained else extra[0]), extra=extra, roots=roots)
    # every RUN in the bundle resolves
    for p in procs:
        for r in static.analyse(p).runs:
            low = r[0].lower()
            if low not in names and low not in static.SYSTEM_MODULES:
                v("C13/unresolved-run/" + low, in_procedure=p.name)
                break
    # bundled procedure text = library text with the placeholder replaced by the requested size
    ltexts = lib_proc_texts()
    repl = ": STRING" if size == 32 else ": STRING[%d]" % size
    blocks = {}
    cur = None
    for ln in out.split("\n"):
        m = re.match(r"(?i)^procedure\s+(\S+)\s*$", ln)
        if m:
            cur = m.group(1).lower()
            blocks[cur] = []
        if cur is not None:
            blocks[cur].append(ln)
    for name in got:
        if name not in ltexts:
            continue
        want = re.sub(r"(?i):\s*STRING<<>>", repl, ltexts[name])
        have = "\n".join(blocks.get(name, [])).strip()
        if have != want:
            leftover = "<<>>" in strip_strings_comments(have)
            v("C13/library-text/" + ("placeholder-left" if leftover else "altered"), procedure=name,
              have=[a for a, b in zip(have.split("\n"), want.split("\n")) if a != b][:3])
            break
    # the user's procedure comes through unchanged (string literals, DATA items, everything)
    body = "\n".join(blocks.get(expected_name.lower(), [])[1:]).strip("\n")
    # comments are not part of what the property protects (string literals and DATA items are)
    def strip_comment_line(ln):
        code = re.sub(r'"[^"]*"', lambda m: "\0" * len(m.group(0)), ln)
        i = code.find("(*")
        return ln if i < 0 else ln[:i] + "(*"

    a = [strip_comment_line(x) for x in body.strip().split("\n")]
    b = [strip_comment_line(x) for x in plain["out"].strip().split("\n")]
    if a and b:
        a[-1], b[-1] = a[-1].rstrip(), b[-1].rstrip()     # white space at the very end of the text is not significant
    if a != b:
        diff = [(x, y) for x, y in zip(a, b) if x != y][:3]
        v("C13/user-text-altered", diff=diff, lens=(len(a), len(b)))
    elif hostile and where in ("str", "data", "print") and '"' not in hostile:
        # ... and unchanged means: as the SOURCE has them (the comparison above is between two outputs of the tool, which a
        # change made before parsing alters alike)
        wanted = ['"%s"' % hostile]
        if where == "data":
            # the quoted item and, behind it, the same text as an unquoted item
            wanted = ['"%s", "%s"' % (hostile, hostile.replace(":", ";").replace(",", ";"))]
        obs["counters"]["source_literals_checked"] = len(wanted)
        lost = [w for w in wanted if w not in body]
        if lost:
            v("C13/user-text-altered/differs-from-source", lost=lost, where=where)
    if case.get("sample"):
        obs["sample"] = {"source": text[:300], "procname": pname, "size": size, "bundle": names}
    return obs


# programs that need (nearly) the whole runtime library at once: the largest bundles, every size tag in one text
MAXIMAL = [
    '10 CLS 3:PRINT@5,"A";TAB(3);B:LOCATE 1,2:ATTR 1,2,B,U:WIDTH 40:PALETTE 1,2:PALETTE RGB:CMP\n'
    '20 HSCREEN 2:HCLS 3:HCOLOR 1,2:HCIRCLE(1,2),3,4,5,6,7:HLINE(1,2)-(3,4),PSET,BF:HSET(1,2,3):HRESET(1,2):HPAINT(1,2),3,4\n'
    '30 HPRINT(1,2),"A":HDRAW "U10":PLAY "CDE":HBUFF 1,100:HGET(1,2)-(3,4),1:HPUT(1,2)-(3,4),1,PSET:SET(1,2,3):RESET(1,2)\n'
    '40 SOUND 1,2:POKE 1,2:POKE 65496,0:A=BUTTON(0)+JOYSTK(1)+POINT(1,2):A$=INKEY$:INPUT "X";A,B$:LINE INPUT C$\n'
    '50 A=INT(B)+VAL(A$)+INSTR(1,A$,B$)+LEN(STR$(A)+HEX$(B)+STRING$(3,"A")):READ D,E$:DATA 1,,X\n'
    '60 ON ERR GOTO 70:ON BRK GOTO 70:X(1)=VARPTR(A)+ERNO\n70 END\n',
    '10 HDRAW A$:PLAY B$:A=INSTR(1,A$,B$):C$=STRING$(3,"X"):B=VAL(A$)\n',
    '10 HDRAW A$:PLAY B$:A=INSTR(1,A$,B$):C$=STRING$(3,"X"):B=VAL(A$):HPRINT(1,2),C$:PRINT A;B:INPUT A\n',
]


def cases(tier, seed):
    n = 400 if tier == "quick" else 60000
    names = ["prog", "my-p", "A_1", "x", "9lives", "bad name", "é", "", "Zz-9_", "game\n", "p\r", "q\n\n", " lead", "trail ", "a.b", "\nx",
             "maze_generator_for_the_coco_3", "maze_generator_for_the_coco_3x", "the-quick-brown-fox-jumps-over-the-lazy", "x" * 64]
    k = 0
    for t in MAXIMAL:
        for size in (32, 64, 200, 16, 1, 31, 255):
            k += 1
            yield {"seed": k, "size": size, "procname": names[k % len(names)], "hostile": False, "fixed_program": t, "cli": k % 2 == 0}
    # every statement kind alone, with and without the standard prologue (whose RUN _ecb_start otherwise roots every bundle)
    from . import c07
    for j, t in enumerate(c07.SINGLE_STATEMENTS):
        for np_ in (True, False):
            k += 1
            yield {"seed": k, "size": [32, 80][j % 2], "procname": "prog", "hostile": False, "fixed_program": t if t.endswith("\n") else t + "\n",
                   "no_prefix": np_}
    for i in range(n):
        yield {"seed": seed * 2654435 + i, "size": [32, 64, 200, 16, 1, 31][i % 6], "procname": names[i % len(names)],
               "hostile": i % 4 != 3, "sample": i % 150 == 0, "no_prefix": i % 5 == 4, "cli": i % 7 == 3}
