"""Expression generators (bounded-exhaustive and seeded random), hazard taints and de-hazarding."""
import itertools

from ..cbref.ast import PREC, RELOPS, is_str, render_expr

NUM_VARS = ["A", "B", "C", "D"]
STR_VARS = ["A$", "B$", "C$"]

ARITH = ["+", "-", "*", "/", "^"]
LOGIC = ["AND", "OR"]


def num(v):
    """Literal node for a non-negative number in canonical spelling."""
    if float(v).is_integer():
        return ("num", float(v), [str(int(v))])
    s = repr(float(v))
    if s.startswith("0."):
        s = s[1:]
    return ("num", float(v), [s])


LITERAL_SPELLINGS = [
    ("num", 12.0, ["12"]), ("num", 12.0, ["12."]), ("num", 0.5, [".5"]), ("num", 0.5, ["0.5"]),
    ("num", 1000.0, ["1", "E", "3"]), ("num", 0.015, ["1.5", "E", "-", "2"]), ("num", 100.0, ["1", "E", "+", "2"]),
    ("num", 5.0, ["5"]), ("num", 0.0, ["0"]), ("num", 7.0, ["007"]), ("num", 2.0, ["2.0"]),
    ("hex", 0x7FFF, "7FFF"), ("hex", 0x8000, "8000"), ("hex", 0xFFFF, "FFFF"), ("hex", 0xFF, "FF"),
    ("hex", 0, "0"), ("hex", 0x10, "10"), ("hex", 0xABC, "ABC"),
]


ODD_STRINGS = ["A\x0cB", "P\x0bQ", "L\x85M", "U\u2028V", "T\tU", "'Q", "a:b", "(*x*)", "\\", "RUN X", "X: STRING<<>>", "1,2", " ", "  Z  ",
               "ELSE", "REM", "?", "\x7f", "\x1c"]


def shapes(k, ops_bin, ops_un, allow_par=True):
    """All expression shapes with exactly k operator nodes; leaves are None placeholders."""
    if k == 0:
        yield None
        return
    for op in ops_un:
        for sub in shapes(k - 1, ops_bin, ops_un, allow_par):
            yield ("un", op, sub)
    for op in ops_bin:
        for kl in range(k):
            for l in shapes(kl, ops_bin, ops_un, allow_par):
                for r in shapes(k - 1 - kl, ops_bin, ops_un, allow_par):
                    yield ("bin", op, l, r)


def fill(shape, leaves):
    """Replace None leaves left-to-right by the given leaf expressions (cycled)."""
    it = itertools.cycle(leaves)

    def go(s):
        if s is None:
            return next(it)
        if s[0] == "un":
            return ("un", s[1], go(s[2]))
        if s[0] == "bin":
            a = go(s[2])
            b = go(s[3])
            return ("bin", s[1], a, b)
        if s[0] == "par":
            return ("par", go(s[1]))
        return s

    return go(shape)


def count_ops(e):
    k = e[0]
    if k in ("un",):
        return 1 + count_ops(e[2])
    if k == "bin":
        return 1 + count_ops(e[2]) + count_ops(e[3])
    if k == "par":
        return count_ops(e[1])
    if k in ("fn", "arr"):
        return 1 + sum(count_ops(a) for a in e[2])
    return 0


def shape_key(e):
    """Structural key: operators and node kinds, leaves abstracted to their kind."""
    k = e[0]
    if k == "un":
        return "%s(%s)" % (e[1], shape_key(e[2]))
    if k == "bin":
        return "(%s%s%s)" % (shape_key(e[2]), e[1], shape_key(e[3]))
    if k == "par":
        return "P[%s]" % shape_key(e[1])
    if k == "fn":
        return "%s[%s]" % (e[1], ",".join(shape_key(a) for a in e[2]))
    if k == "arr":
        return "arr%s[%s]" % ("$" if e[1].endswith("$") else "", ",".join(shape_key(a) for a in e[2]))
    if k == "num":
        return "n:" + "".join(e[2])
    if k == "hex":
        return "h:" + e[2]
    if k in ("str", "ostr"):
        return "s%d" % len(e[1])
    if k == "var":
        return "v$" if e[1].endswith("$") else "v"
    return k


# ------------------------------------------------------------------ hazards (known mechanisms)

def taint(e):
    """Set of known-mechanism names whose syntactic trigger occurs in the rendering of e (see taint_text)."""
    return taint_text(render_expr(e))


def taint_text(text):
    """Known grouping mechanisms of the tool, as token patterns of the source expression text.

    PREFIX-OVER-LOGIC  : a prefix operator (NOT, unary - or +) followed, at the same parenthesis depth and
                         inside the same argument, by AND/OR (or, for unary -/+, a relational operator):
                         the tool's grammar lets the prefix operator capture the whole trailing expression.
    NEG-BEFORE-POW     : a prefix - or + whose first operand primary is directly followed by ^ :
                         BASIC09 negates before raising, Color BASIC after.
    """
    from ..cbref.exprparse import tokenize

    toks = tokenize(text)
    found = set()
    n = len(toks)
    for i, (k, v) in enumerate(toks):
        if k == "id" and v == "NOT":
            pass
        elif k == "op" and v in ("+", "-"):
            if i > 0:
                pk, pv = toks[i - 1]
                prev_is_operator = (pk == "op" and pv != ")") or (pk == "id" and pv in ("AND", "OR", "NOT"))
                if not prev_is_operator:
                    continue
        else:
            continue
        sign = v in ("+", "-")
        depth = 0
        j = i + 1
        primary_done = False

        def after_primary(jj):
            if sign and jj + 1 < n and toks[jj + 1] == ("op", "^"):
                found.add("NEG-BEFORE-POW")

        while j < n:
            kk, vv = toks[j]
            if kk == "op" and vv == "(":
                depth += 1
            elif kk == "op" and vv == ")":
                if depth == 0:
                    break
                depth -= 1
                if depth == 0 and not primary_done:
                    primary_done = True
                    after_primary(j)
            elif depth == 0:
                if kk == "op" and vv == ",":
                    break
                if kk == "id" and vv in ("AND", "OR"):
                    found.add("PREFIX-OVER-LOGIC")
                elif kk == "op" and vv in ("=", "<>", "<", ">", "<=", ">=", "=<", "=>"):
                    if sign:
                        found.add("PREFIX-OVER-LOGIC")
                elif not primary_done and kk in ("num", "hex", "str"):
                    primary_done = True
                    after_primary(j)
                elif not primary_done and kk == "id" and vv != "NOT":
                    if not (j + 1 < n and toks[j + 1] == ("op", "(")):
                        primary_done = True
                        after_primary(j)
            j += 1
    return found


def dehazard(e, parent=None, side=None):
    """Same Color BASIC meaning, but every prefix-operator group is wrapped in explicit parentheses (and a
    power under a unary sign gets its own), so that no known grouping mechanism can apply."""
    k = e[0]
    if k == "un":
        inner = dehazard(e[2], e, "u")
        if inner[0] == "bin" and inner[1] == "^":
            inner = ("par", inner)
        elif inner[0] not in ("par", "num", "hex", "var", "str", "arr", "fn"):
            inner = ("par", inner)
        node = ("un", e[1], inner)
        return ("par", node) if parent is not None else node
    if k == "bin":
        return ("bin", e[1], dehazard(e[2], e, "l"), dehazard(e[3], e, "r"))
    if k == "par":
        return ("par", dehazard(e[1], None, None))
    if k == "fn":
        return ("fn", e[1], [dehazard(a, None, None) for a in e[2]])
    if k == "arr":
        return ("arr", e[1], [dehazard(a, None, None) for a in e[2]])
    return e


def int_typed(e):
    """True if the emitted BASIC09 expression for e has type INTEGER (so that / truncates and + - * wrap):
    results of NOT/AND/OR (LNOT/LAND/LOR), LEN, ASC, PEEK and arithmetic on such values.  Literals, variables,
    array elements, hex literals (emitted as float($..)) and everything routed through a temporary are REAL."""
    k = e[0]
    if k == "par":
        return int_typed(e[1])
    if k == "un":
        return True if e[1] == "NOT" else int_typed(e[2])
    if k == "bin":
        if e[1] in ("AND", "OR"):
            return True
        if e[1] in ("+", "-", "*", "/"):
            return int_typed(e[2]) and int_typed(e[3])
        return False
    if k == "fn":
        if e[1] in ("LEN", "ASC", "PEEK"):
            return True
        if e[1] in ("ABS", "SGN"):
            return int_typed(e[2][0])
        return False
    return False


def has_int_division(e):
    k = e[0]
    if k == "bin":
        if e[1] == "/" and int_typed(e[2]) and int_typed(e[3]):
            return True
        return has_int_division(e[2]) or has_int_division(e[3])
    if k == "un":
        return has_int_division(e[2])
    if k == "par":
        return has_int_division(e[1])
    if k in ("fn", "arr"):
        return any(has_int_division(a) for a in e[2])
    return False


def realify_divisions(e):
    """Same Color BASIC value, but no division has two INTEGER-typed operands (adds '+0' to the divisor)."""
    k = e[0]
    if k == "bin":
        a, b = realify_divisions(e[2]), realify_divisions(e[3])
        if e[1] == "/" and int_typed(a) and int_typed(b):
            b = ("par", ("bin", "+", b, num(0)))
        return ("bin", e[1], a, b)
    if k == "un":
        return ("un", e[1], realify_divisions(e[2]))
    if k == "par":
        return ("par", realify_divisions(e[1]))
    if k == "fn":
        return ("fn", e[1], [realify_divisions(a) for a in e[2]])
    if k == "arr":
        return ("arr", e[1], [realify_divisions(a) for a in e[2]])
    return e


def has_int_arith(e, ops=("+", "-", "*")):
    """Some + - * has two INTEGER-typed operands in the emitted text (16-bit wrap-around in BASIC09)."""
    k = e[0]
    if k == "bin":
        if e[1] in ops and int_typed(e[2]) and int_typed(e[3]):
            return True
        return has_int_arith(e[2], ops) or has_int_arith(e[3], ops)
    if k == "un":
        return has_int_arith(e[2], ops)
    if k == "par":
        return has_int_arith(e[1], ops)
    if k in ("fn", "arr"):
        return any(has_int_arith(a, ops) for a in e[2])
    return False


def realify_arith(e, ops=("+", "-", "*", "/")):
    """Same Color BASIC value, but no + - * / has two INTEGER-typed operands (adds '+0' to the right operand)."""
    k = e[0]
    if k == "bin":
        a, b = realify_arith(e[2], ops), realify_arith(e[3], ops)
        if e[1] in ops and int_typed(a) and int_typed(b):
            b = ("par", ("bin", "+", ("par", b), num(0)))
            a = ("par", ("bin", "+", ("par", a), num(0)))
        return ("bin", e[1], a, b)
    if k == "un":
        return ("un", e[1], realify_arith(e[2], ops))
    if k == "par":
        return ("par", realify_arith(e[1], ops))
    if k == "fn":
        return ("fn", e[1], [realify_arith(a, ops) for a in e[2]])
    if k == "arr":
        return ("arr", e[1], [realify_arith(a, ops) for a in e[2]])
    return e


def uses_fn(e, names):
    k = e[0]
    if k == "fn":
        if e[1] in names:
            return True
        return any(uses_fn(a, names) for a in e[2])
    if k == "arr":
        return any(uses_fn(a, names) for a in e[2])
    if k == "un":
        return uses_fn(e[2], names)
    if k == "bin":
        return uses_fn(e[2], names) or uses_fn(e[3], names)
    if k == "par":
        return uses_fn(e[1], names)
    return False


def all_fns(e, out=None):
    if out is None:
        out = set()
    k = e[0]
    if k == "fn":
        out.add(e[1])
        for a in e[2]:
            all_fns(a, out)
    elif k == "arr":
        for a in e[2]:
            all_fns(a, out)
    elif k == "un":
        all_fns(e[2], out)
    elif k == "bin":
        all_fns(e[2], out)
        all_fns(e[3], out)
    elif k == "par":
        all_fns(e[1], out)
    return out


# ------------------------------------------------------------------ random generators

class ExprGen(object):
    def __init__(self, rng, num_vars=NUM_VARS, str_vars=STR_VARS, num_arrays=(), str_arrays=(),
                 funcs=True, conv=True, logic=True, hexlit=True, strings=True, device_funcs=False,
                 literals=None, odd=0.04):
        self.r = rng
        self.odd = odd
        self.nv = list(num_vars)
        self.sv = list(str_vars)
        self.na = list(num_arrays)
        self.sa = list(str_arrays)
        self.funcs = funcs
        self.conv = conv
        self.logic = logic
        self.hexlit = hexlit
        self.strings = strings
        self.device_funcs = device_funcs
        self.literals = literals

    def lit(self):
        r = self.r
        if self.literals:
            return r.choice(self.literals)
        x = r.random()
        if x < 0.55:
            return num(r.choice([0, 1, 2, 3, 4, 5, 7, 10]))
        if x < 0.75:
            return num(r.choice([0.5, 1.5, 2.5, 0.25]))
        if x < 0.9 and self.hexlit:
            v = r.choice([0, 1, 7, 15, 255])
            return ("hex", v, "%X" % v)
        return r.choice([l for l in LITERAL_SPELLINGS if l[0] == "num" and l[1] < 200])

    def small_int(self):
        return num(self.r.choice([0, 1, 2, 3]))

    def leaf(self):
        r = self.r
        x = r.random()
        if x < 0.5 and self.nv:
            return ("var", r.choice(self.nv))
        if x < 0.6 and self.na:
            name, nd = r.choice(self.na)
            return ("arr", name, [self.small_int() for _ in range(nd)])
        return self.lit()

    def num(self, depth):
        r = self.r
        if depth <= 0:
            return self.leaf()
        x = r.random()
        if x < 0.48:
            op = r.choice(ARITH if r.random() < 0.85 else ["^"])
            return ("bin", op, self.num(depth - 1), self.num(depth - 1 if r.random() < 0.5 else 0))
        if x < 0.56:
            return ("un", "-", self.num(depth - 1))
        if x < 0.66:
            return ("par", self.num(depth - 1))
        if x < 0.74 and self.logic:
            return ("bin", r.choice(LOGIC), self.num(depth - 1), self.num(0))
        if x < 0.78 and self.logic:
            return ("un", "NOT", self.num(depth - 1))
        if x < 0.92 and self.funcs:
            return self.num_fn(depth - 1)
        return self.leaf()

    def num_fn(self, depth):
        r = self.r
        pool = ["ABS", "SGN", "FIX", "SQR", "LEN", "ASC"]
        if self.conv:
            pool += ["INT", "INT", "VAL", "INSTR"]
        if self.device_funcs:
            pool += ["BUTTON", "JOYSTK", "POINT"]
        f = r.choice(pool)
        if f in ("ABS", "SGN", "FIX", "INT", "SQR", "BUTTON", "JOYSTK"):
            return ("fn", f, [self.num(depth)])
        if f == "POINT":
            return ("fn", f, [self.num(depth), self.num(0)])
        if f in ("LEN", "ASC", "VAL"):
            if not self.strings:
                return ("fn", "ABS", [self.num(depth)])
            if f == "VAL":
                return ("fn", f, [("str", r.choice(["12", "3.5", "0", "7"]))])
            return ("fn", f, [self.str(depth, nonempty=(f == "ASC"))])
        if f == "INSTR":
            return ("fn", f, [num(r.choice([1, 1, 2])), self.str(depth), self.str(0)])
        raise AssertionError(f)

    def str(self, depth, nonempty=False):
        r = self.r
        if depth <= 0 or not self.strings:
            x = r.random()
            if x < 0.45 and self.sv and not nonempty:
                return ("var", r.choice(self.sv))
            if x < 0.55 and self.sa and not nonempty:
                name, nd = r.choice(self.sa)
                return ("arr", name, [self.small_int() for _ in range(nd)])
            pool = ["A", "AB", "ABC", "B", "XY", "HELLO"] + ([] if nonempty else [""])
            if r.random() < self.odd:
                # contents a text-processing step might trip over: characters some routines take for line ends, comment
                # and statement delimiters, keywords, the size tag of the library
                pool = ODD_STRINGS
            return ("str", r.choice(pool))
        x = r.random()
        if x < 0.3:
            return ("bin", "+", self.str(depth - 1, nonempty), self.str(0))
        if x < 0.45:
            return ("fn", r.choice(["LEFT$", "RIGHT$"]), [self.str(depth - 1), num(r.choice([0, 1, 2, 3]))]) \
                if not nonempty else ("str", "Q")
        if x < 0.55:
            return ("fn", "MID$", [self.str(depth - 1), num(r.choice([1, 2, 3])), num(r.choice([0, 1, 2]))]) \
                if not nonempty else ("str", "Q")
        if x < 0.65:
            return ("fn", "CHR$", [num(r.choice([65, 66, 48, 90]))])
        if x < 0.72 and self.conv:
            return ("fn", "STRING$", [num(r.choice([0, 1, 2, 3])), self.str(0, nonempty=True)])
        if x < 0.78 and self.conv and not nonempty:
            return ("fn", "STR$", [self.num(depth - 1)])
        if x < 0.82 and self.conv and not nonempty:
            return ("fn", "HEX$", [num(r.choice([0, 9, 10, 255, 4096]))])
        if x < 0.85 and self.device_funcs:
            return ("fn", "INKEY$", [])
        return self.str(0, nonempty)

    def relop(self):
        # "=<" and "=>" are legal spellings of <= and >=
        return self.r.choice(RELOPS + RELOPS + ("=<", "=>"))

    def rel(self, depth):
        r = self.r
        if self.strings and r.random() < 0.25:
            return ("bin", self.relop(), self.str(min(depth, 1)), self.str(0))
        return ("bin", self.relop(), self.num_nologic(depth), self.num_nologic(0))

    def num_nologic(self, depth):
        saved = self.logic
        self.logic = False
        try:
            return self.num(depth)
        finally:
            self.logic = saved

    def cond(self, depth):
        """Boolean structure of comparisons (the fragment of C01/C02 for IF conditions)."""
        r = self.r
        if depth <= 0:
            return self.rel(1)
        x = r.random()
        if x < 0.4:
            return ("bin", r.choice(LOGIC), self.cond(depth - 1), self.cond(depth - 1 if r.random() < 0.4 else 0))
        if x < 0.5:
            return ("un", "NOT", ("par", self.cond(depth - 1)))
        if x < 0.6:
            return ("par", self.cond(depth - 1))
        return self.rel(depth)


def subst(e, old, new):
    """Copy of expression e with every occurrence of the node `old` replaced by `new`."""
    if e == old:
        return new
    if isinstance(e, tuple):
        return tuple(subst(x, old, new) for x in e)
    if isinstance(e, list):
        return [subst(x, old, new) for x in e]
    return e
