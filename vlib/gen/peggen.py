"""Random sentences derived from the tool's OWN grammar object (whatever it is on the tree under observation).

The other generators write programs from my reading of the language; this one walks the parsimonious expression
graph the tool parses with, so a change that widens or shifts the accepted language is explored without anybody
having to think of the new spelling.  Lookaheads cannot be honoured while generating, and PEG choice is ordered, so
only a part of the sentences is accepted: the rest costs a refusal and is not judged."""
import re

try:                                    # Python 3.11+: re._parser; earlier: sre_parse
    from re import _parser as sre_parse
    from re import _constants as sre_c
except ImportError:                     # pragma: no cover
    import sre_parse
    import sre_constants as sre_c

from parsimonious import expressions as PE

INF = float("inf")
_POOL = [chr(c) for c in range(32, 127)] + ["\t", "\x00", "\x0c", "\xe9"]
_WORDS = ["A", "B", "I", "X1", "AB", "N$", "ZZ", "Q", "TO", "IF", "OR", "FN", "E", "H", "ELSE", "REM"]


class RegexSampler(object):
    def __init__(self, rng):
        self.r = rng
        self.cache = {}

    def sample(self, pattern, flags=0):
        key = (pattern, flags)
        if key not in self.cache:
            try:
                self.cache[key] = (sre_parse.parse(pattern, flags), re.compile(pattern, flags))
            except Exception:  # noqa: BLE001 - an unparsable pattern yields nothing to sample
                self.cache[key] = (None, None)
        tree, rx = self.cache[key]
        if tree is None:
            return ""
        last = ""
        for _ in range(12):
            s = self._seq(tree)
            last = s
            if rx.fullmatch(s):
                return s
        return last

    def _seq(self, items):
        return "".join(self._item(op, av) for op, av in items)

    def _class(self, av):
        neg = False
        chars = set()
        for op, a in av:
            if op == sre_c.NEGATE:
                neg = True
            elif op == sre_c.LITERAL:
                chars.add(chr(a))
            elif op == sre_c.RANGE:
                lo, hi = a
                for c in range(lo, min(hi, lo + 200) + 1):
                    chars.add(chr(c))
            elif op == sre_c.CATEGORY:
                chars.update(self._category(a))
        if neg:
            pool = [c for c in _POOL if c not in chars]
            return self.r.choice(pool) if pool else ""
        return self.r.choice(sorted(chars)) if chars else ""

    def _category(self, a):
        name = str(a)
        if "NOT_DIGIT" in name:
            return [c for c in _POOL if not c.isdigit()]
        if "DIGIT" in name:
            return list("0123456789")
        if "NOT_SPACE" in name:
            return [c for c in _POOL if not c.isspace()]
        if "SPACE" in name:
            return [" ", "\t"]
        if "NOT_WORD" in name:
            return [c for c in _POOL if not (c.isalnum() or c == "_")]
        if "WORD" in name:
            return list("ABCXYZ019_")
        return ["A"]

    def _item(self, op, av):
        r = self.r
        if op == sre_c.LITERAL:
            return chr(av)
        if op == sre_c.NOT_LITERAL:
            return r.choice([c for c in _POOL if c != chr(av)])
        if op == sre_c.ANY:
            return r.choice(_POOL)
        if op == sre_c.IN:
            return self._class(av)
        if op == sre_c.BRANCH:
            return self._seq(r.choice(av[1]))
        if op == sre_c.SUBPATTERN:
            return self._seq(av[-1])
        if op in (sre_c.MAX_REPEAT, sre_c.MIN_REPEAT):
            lo, hi, sub = av
            hi = min(hi if hi != sre_c.MAXREPEAT else lo + 4, lo + 4)
            n = lo + (0 if r.random() < 0.45 else r.randint(0, hi - lo))
            return "".join(self._seq(sub) for _ in range(n))
        if op in (sre_c.AT, sre_c.ASSERT, sre_c.ASSERT_NOT):
            return ""
        if op == sre_c.CATEGORY:
            return r.choice(self._category(av))
        return ""


class PegSampler(object):
    def __init__(self, grammar, rng, avoid=(), max_depth=28, word_bias=0.5, avoid_optional_literals=()):
        self.g = grammar
        self.r = rng
        self.avoid = set(avoid)
        self.avoid_lits = set(avoid_optional_literals)
        self.max_depth = max_depth
        self.rx = RegexSampler(rng)
        self.word_bias = word_bias
        self.cost = {}
        self._costs()
        self.rules_used = set()
        # names built on the tool's own reserved words (as they are on the tree under observation): the terminal's look-ahead
        # refuses them today; should a change let one through, it is generated
        self.words = list(_WORDS)
        try:
            from coco.b09 import grammar as _g
            kws = [k for k in getattr(_g, "KEYWORDS", "").split("|") if k.isalpha()]
            rng2 = rng
            for k in rng2.sample(kws, min(len(kws), 12)):
                self.words += [k + "X", k + "1", k + "FLAG", k]
        except Exception:  # noqa: BLE001
            pass

    # ---- minimal derivation depth per expression (fixpoint), to be able to terminate
    def _members(self, e):
        return getattr(e, "members", ()) or ()

    def _costs(self):
        exprs = []
        seen = set()
        stack = list(self.g.values())
        while stack:
            e = stack.pop()
            if id(e) in seen:
                continue
            seen.add(id(e))
            exprs.append(e)
            stack.extend(self._members(e))
        cost = {id(e): INF for e in exprs}
        changed = True
        while changed:
            changed = False
            for e in exprs:
                c = self._cost1(e, cost)
                if c < cost[id(e)]:
                    cost[id(e)] = c
                    changed = True
        self.cost = cost

    def _cost1(self, e, cost):
        if e.name in self.avoid:
            return INF
        if isinstance(e, (PE.Literal, PE.Regex)):
            return 1
        if isinstance(e, PE.Lookahead):
            return 0
        ms = self._members(e)
        if isinstance(e, PE.Quantifier):
            return 1 if e.min == 0 else 1 + cost[id(ms[0])]
        if isinstance(e, PE.OneOf):
            return 1 + min([cost[id(m)] for m in ms] or [INF])
        if isinstance(e, PE.Sequence):
            return 1 + max([cost[id(m)] for m in ms] or [0])
        return 1

    # ---- generation
    def gen(self, rule=None):
        e = self.g[rule] if rule else self.g.default_rule
        self.rules_used = set()
        return self._emit(e, 0)

    def _emit(self, e, d):
        r = self.r
        if e.name:
            self.rules_used.add(e.name)
        if isinstance(e, PE.Literal):
            return e.literal
        if isinstance(e, PE.Regex):
            pat = e.re.pattern
            # identifier-like terminals: mostly plausible names (the lookahead excluding keywords is not honoured by
            # the sampler, so a share of raw samples is kept to meet keywords and look-alikes too)
            if "[A-Z][A-Z0-9]*" in pat and r.random() < self.word_bias:
                w = r.choice(self.words)
                w = w.rstrip("$") + ("$" if pat.rstrip(")").endswith("\\$") else "")
                if e.re.fullmatch(w):
                    return w
            return self.rx.sample(pat, e.re.flags)
        if isinstance(e, PE.Lookahead):
            return ""
        ms = self._members(e)
        tight = d >= self.max_depth
        if isinstance(e, PE.Quantifier):
            sub = ms[0]
            if self.cost[id(sub)] == INF:
                return ""
            if e.min == 0 and isinstance(sub, PE.Literal) and sub.literal in self.avoid_lits:
                return ""
            lo = e.min
            hi = lo + 3 if e.max == INF else int(e.max)
            n = lo if (tight or r.random() < 0.5) else r.randint(lo, max(lo, min(hi, lo + 3)))
            return "".join(self._emit(sub, d + 1) for _ in range(n))
        if isinstance(e, PE.OneOf):
            ok = [m for m in ms if self.cost[id(m)] < INF]
            if not ok:
                return ""
            if tight:
                best = min(self.cost[id(m)] for m in ok)
                ok = [m for m in ok if self.cost[id(m)] == best]
            return self._emit(r.choice(ok), d + 1)
        if isinstance(e, PE.Sequence):
            return "".join(self._emit(m, d + 1) for m in ms)
        return ""
