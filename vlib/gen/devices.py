"""Device statements: abstract form, rendering, Color BASIC meaning, and the role table that
says which runtime procedure / PARAM name each source operand must reach (DESIGN.md Appendix B).

('dev', KIND, ops)   ops: dict operand-name -> expr | None, plus literal options.
The role table is written from the Color BASIC meaning of each statement and from the PARAM
*names* in ecb.b09; positions are looked up in the current library at check time.
"""

DISPLAY = "<record display:display_t>"
PLAY = "<record play:play_t>"

# kind -> (ordered operand names)  -- operands that are expressions
OPERANDS = {
    "CLS": ["c"],
    "LOCATE": ["x", "y"],
    "ATTR": ["f", "b"],
    "WIDTH": ["n"],
    "PALETTE": ["r", "c"],
    "PALETTE_RGB": [], "PALETTE_CMP": [], "RGB": [], "CMP": [],
    "HSCREEN": ["n"],
    "HCLS": ["c"],
    "HCOLOR": ["f", "b"],
    "HCIRCLE": ["x", "y", "r", "c", "ratio", "s", "e"],
    "HLINE": ["x0", "y0", "x1", "y1"],
    "HSET": ["x", "y", "c"],
    "HRESET": ["x", "y"],
    "HPAINT": ["x", "y", "c", "b"],
    "HPRINT": ["x", "y", "t"],
    "HDRAW": ["s"],
    "PLAY": ["s"],
    "HBUFF": ["b", "s"],
    "HGET": ["x0", "y0", "x1", "y1", "b"],
    "HPUT": ["x0", "y0", "x1", "y1", "b"],
    "SET": ["x", "y", "c"],
    "RESET": ["x", "y"],
    "SOUND": ["f", "d"],
    "POKE": ["a", "v"],
}


def render(r, s):
    kind, o = s[1], s[2]

    def e(name):
        r.expr(o[name])

    def coords(a, b, c=None):
        r.add("(")
        e(a)
        r.add(",")
        e(b)
        if c:
            r.add(",")
            e(c)
        r.add(")")

    if kind in ("CLS", "HSCREEN", "HCLS", "WIDTH"):
        r.add(kind)
        nm = OPERANDS[kind][0]
        if o.get(nm) is not None:
            e(nm)
    elif kind in ("LOCATE", "PALETTE", "SOUND", "POKE", "HBUFF"):
        r.add(kind)
        a, b = OPERANDS[kind]
        e(a)
        r.add(",")
        e(b)
    elif kind == "ATTR":
        r.add("ATTR")
        e("f")
        r.add(",")
        e("b")
        for opt in o.get("opts", []):
            r.add(",")
            r.add(opt)
    elif kind in ("PALETTE_RGB", "PALETTE_CMP"):
        r.add("PALETTE")
        r.add(kind[-3:])
    elif kind in ("RGB", "CMP"):
        r.add(kind)
    elif kind == "HCOLOR":
        r.add("HCOLOR")
        e("f")
        if o.get("b") is not None:
            r.add(",")
            e("b")
    elif kind == "HCIRCLE":
        r.add("HCIRCLE")
        coords("x", "y")
        r.add(",")
        e("r")
        has_c = o.get("c") is not None
        has_rt = o.get("ratio") is not None
        has_arc = o.get("s") is not None
        if has_c or has_rt or has_arc or o.get("trailing_comma"):
            r.add(",")
            if has_c:
                e("c")
        if has_rt or has_arc:
            r.add(",")
            e("ratio")
        if has_arc:
            r.add(",")
            e("s")
            r.add(",")
            e("e")
    elif kind == "HLINE":
        r.add("HLINE")
        if o.get("x0") is not None:
            coords("x0", "y0")
        r.add("-")
        coords("x1", "y1")
        r.add(",")
        r.add(o["mode"])
        if o.get("box"):
            r.add(",")
            r.add(o["box"])
    elif kind == "HSET":
        r.add("HSET")
        coords("x", "y", "c" if o.get("c") is not None else None)
    elif kind == "HRESET":
        r.add("HRESET")
        coords("x", "y")
    elif kind == "HPAINT":
        r.add("HPAINT")
        coords("x", "y")
        if o.get("c") is not None:
            r.add(",")
            e("c")
            if o.get("b") is not None:
                r.add(",")
                e("b")
    elif kind == "HPRINT":
        r.add("HPRINT")
        coords("x", "y")
        r.add(",")
        e("t")
    elif kind in ("HDRAW", "PLAY"):
        r.add(kind)
        e("s")
    elif kind == "HGET":
        r.add("HGET")
        coords("x0", "y0")
        r.add("-")
        coords("x1", "y1")
        r.add(",")
        e("b")
    elif kind == "HPUT":
        r.add("HPUT")
        coords("x0", "y0")
        r.add("-")
        coords("x1", "y1")
        r.add(",")
        e("b")
        r.add(",")
        r.add(o["action"])
    elif kind in ("SET",):
        r.add("SET")
        coords("x", "y", "c")
    elif kind == "RESET":
        r.add("RESET")
        coords("x", "y")
    else:
        raise ValueError("device kind %s" % kind)


def expected_calls(kind, o, v, state):
    """Role table.  v: operand name -> evaluated value (None if omitted).  state: dict with
    'octo'.  -> list of expected events: ('run', proc, {param: value}) | ('poke', a, v) | ('octo', n)"""
    D = DISPLAY
    HF = ("display.hfore",)   # default: current hi-res foreground colour
    if kind == "CLS":
        return [("run", "ecb_cls", {"color": v["c"] if v["c"] is not None else 1.0, "display": D})]
    if kind == "LOCATE":
        return [("run", "ecb_locate", {"x": v["x"], "y": v["y"]})]
    if kind == "ATTR":
        opts = o.get("opts", [])
        return [("run", "ecb_attr", {"f": v["f"], "b": v["b"], "bk": 1.0 if "B" in opts else 0.0,
                                     "undr": 1.0 if "U" in opts else 0.0, "display": D})]
    if kind == "WIDTH":
        return [("run", "_ecb_width", {"width": v["n"], "display": D})]
    if kind == "PALETTE":
        return [("run", "ecb_set_palette", {"pr": v["r"], "cc": v["c"], "display": D})]
    if kind in ("PALETTE_RGB", "RGB"):
        return [("run", "ecb_set_palette_rgb", {"display": D})]
    if kind in ("PALETTE_CMP", "CMP"):
        return [("run", "ecb_set_palette_cmp", {"display": D})]
    if kind == "HSCREEN":
        return [("run", "ecb_hscreen", {"n": v["n"] if v["n"] is not None else 0.0, "display": D})]
    if kind == "HCLS":
        return [("run", "ecb_hcls", {"n": v["c"] if v["c"] is not None else -1.0, "display": D})]
    if kind == "HCOLOR":
        return [("run", "ecb_hcolor", {"f": v["f"], "b": v["b"] if v["b"] is not None else -1.0, "display": D})]
    if kind == "HCIRCLE":
        c = v["c"] if v["c"] is not None else HF
        if v["s"] is not None:
            return [("run", "ecb_harc", {"x": v["x"], "y": v["y"], "r": v["r"], "c": c, "rt": v["ratio"],
                                         "sp": v["s"], "ep": v["e"], "display": D})]
        return [("run", "ecb_hcircle", {"x": v["x"], "y": v["y"], "r": v["r"], "c": c,
                                        "rt": v["ratio"] if v["ratio"] is not None else 1.0, "display": D})]
    if kind == "HLINE":
        rel = v["x0"] is None
        return [("run", "ecb_hline", {"rd": "r" if rel else "d", "x0": 0.0 if rel else v["x0"],
                                      "y0": 0.0 if rel else v["y0"], "x1": v["x1"], "y1": v["y1"],
                                      "m": o["mode"], "t": {None: "L", "B": "B", "BF": "BF"}[o.get("box")],
                                      "display": D})]
    if kind == "HSET":
        if v["c"] is not None:
            return [("run", "ecb_hset3", {"x": v["x"], "y": v["y"], "c": v["c"], "display": D})]
        return [("run", "ecb_hset", {"x": v["x"], "y": v["y"], "display": D})]
    if kind == "HRESET":
        return [("run", "ecb_hreset", {"x": v["x"], "y": v["y"], "display": D})]
    if kind == "HPAINT":
        return [("run", "ecb_hpaint", {"x": v["x"], "y": v["y"], "c": v["c"] if v["c"] is not None else HF,
                                       "c0": v["b"] if v["b"] is not None else HF, "d": D})]
    if kind == "HPRINT":
        return [("run", "ecb_hprint", {"x": v["x"], "y": v["y"], "txt": v["t"], "display": D})]
    if kind == "HDRAW":
        return [("run", "ecb_hdraw", {"s": v["s"], "d": D})]
    if kind == "PLAY":
        return [("run", "ecb_play", {"s": v["s"], "p": PLAY})]
    if kind == "HBUFF":
        return [("run", "_ecb_hbuff", {"b": v["b"], "s": v["s"], "pid": "PID", "d": D})]
    if kind == "HGET":
        return [("run", "ecb_hget", {"x0": v["x0"], "y0": v["y0"], "x1": v["x1"], "y1": v["y1"], "b": v["b"],
                                     "p": "PID", "d": D})]
    if kind == "HPUT":
        return [("run", "ecb_hput", {"x0": v["x0"], "y0": v["y0"], "x1": v["x1"], "y1": v["y1"], "b": v["b"],
                                     "a": o["action"], "p": "PID", "d": D})]
    if kind == "SET":
        return [("run", "ecb_set", {"x": v["x"], "y": v["y"], "c": v["c"]})]
    if kind == "RESET":
        return [("run", "ecb_reset", {"x": v["x"], "y": v["y"]})]
    if kind == "SOUND":
        return [("run", "ecb_sound", {"f": v["f"], "d": v["d"], "v": 31.0, "o": state["octo"]})]
    if kind == "POKE":
        lit = o["a"]
        while lit[0] == "par":
            lit = lit[1]
        if lit[0] in ("num", "hex") and float(lit[1]) in (65496.0, 65497.0):
            return [("octo", 0 if float(lit[1]) == 65496.0 else 1)]
        return [("poke", v["a"], v["v"])]
    raise ValueError(kind)


def execute(m, s):
    """Color BASIC side: evaluate the operands left to right, record the expected runtime events."""
    kind, o = s[1], s[2]
    v = {}
    for nm in OPERANDS[kind]:
        ex = o.get(nm)
        if ex is None:
            v[nm] = None
        else:
            val = m.ev(ex)
            if kind == "HPRINT" and nm == "t" and not isinstance(val, str):
                from ..cbref.interp import fmt_num

                m.events.append(("call", "PRINTNUM", (val,), fmt_num(val) + " "))
                val = fmt_num(val) + " "
            v[nm] = val
    state = {"octo": m.play_octo}
    for ev in expected_calls(kind, o, v, state):
        if ev[0] == "octo":
            m.play_octo = ev[1]
        m.events.append(("dev", kind) + ev)
