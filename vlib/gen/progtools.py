"""Walking / rewriting abstract programs; program-level hazard taints and de-hazarding."""
from . import exprs as X
from . import devices

CONVERTIBLE = {"INT", "VAL", "STR$", "HEX$", "INSTR", "STRING$", "INKEY$", "BUTTON", "JOYSTK", "POINT"}


def map_stmt(s, f, ft=None):
    """Rebuild statement s with f applied to every top-level expression (ft to READ/INPUT/assignment targets)."""
    ft = ft or f
    k = s[0]
    if k == "let":
        return ("let", ft(s[1]), f(s[2]), s[3])
    if k == "print":
        return ("print", [(it[0], f(it[1])) if it[0] == "e" else tuple(it) for it in s[1]],
                f(s[2]) if s[2] is not None else None)
    if k == "if":
        def br(b):
            if b is None:
                return None
            if b[0] == "line":
                return ("line", b[1])
            return ("stmts", [map_stmt(x, f, ft) for x in b[1]])
        return ("if", f(s[1]), br(s[2]), [(f(c), br(b)) for c, b in s[3]], br(s[4]))
    if k == "for":
        return ("for", s[1], f(s[2]), f(s[3]), f(s[4]) if s[4] is not None else None)
    if k == "on":
        return ("on", f(s[1]), s[2], list(s[3]))
    if k == "read":
        return ("read", [ft(t) for t in s[1]])
    if k == "input":
        return ("input", s[1], [ft(t) for t in s[2]], s[3])
    if k == "dev":
        o = dict(s[2])
        for nm in devices.OPERANDS[s[1]]:
            if o.get(nm) is not None:
                o[nm] = f(o[nm])
        return ("dev", s[1], o)
    return tuple(s)


def map_prog(prog, f, ft=None):
    return [(n, [map_stmt(s, f, ft) for s in stmts]) for n, stmts in prog]


def walk_stmts(stmts):
    for s in stmts:
        yield s
        if s[0] == "if":
            for b in [s[2]] + [b for _, b in s[3]] + ([s[4]] if s[4] is not None else []):
                if b[0] == "stmts":
                    for x in walk_stmts(b[1]):
                        yield x


def all_stmts(prog):
    for n, stmts in prog:
        for s in walk_stmts(stmts):
            yield n, s


def stmt_exprs(s):
    """(role, expr) for each top-level expression of one statement (not descending into IF branches)."""
    out = []

    def f(e):
        out.append(("e", e))
        return e

    def ft(e):
        out.append(("target", e))
        return e

    k = s[0]
    if k == "if":
        out.append(("cond", s[1]))
        for c, _ in s[3]:
            out.append(("cond", c))
        return out
    map_stmt(s, f, ft)
    return out


def taints(prog):
    """Known-mechanism triggers anywhere in the program."""
    found = set()
    for n, s in all_stmts(prog):
        for role, e in stmt_exprs(s):
            t = X.taint(e)
            found |= t
            if role == "target" and s[0] in ("read", "input") and e[0] == "arr":
                if any(X.all_fns(a) & CONVERTIBLE for a in e[2]):
                    found.add("READ-INPUT-subscript-unvisited")
        if s[0] == "if" and (s[3] or s[4] is not None):
            conds = [s[1]] + [c for c, _ in s[3]]
            if any(X.all_fns(c) & CONVERTIBLE for c in conds):
                found.add("IFELSE-preassignments-dropped")
    return found


def dehazard_prog(prog):
    def f(e):
        return X.dehazard(e)

    def ft(e):
        if e[0] == "arr":
            return ("arr", e[1], [X.dehazard(a) for a in e[2]])
        return e

    def fix_targets(s):
        if s[0] in ("read", "input"):
            def tgt(t):
                if t[0] == "arr" and any(X.all_fns(a) & CONVERTIBLE for a in t[2]):
                    return ("arr", t[1], [X.num(1) for _ in t[2]])
                return t
            if s[0] == "read":
                return ("read", [tgt(t) for t in s[1]])
            return ("input", s[1], [tgt(t) for t in s[2]], s[3])
        if s[0] == "if":
            def br(b):
                if b is None or b[0] == "line":
                    return b
                return ("stmts", [fix_targets(x) for x in b[1]])
            return ("if", s[1], br(s[2]), [(c, br(b)) for c, b in s[3]], br(s[4]))
        return s

    p = map_prog(prog, f, ft)
    return [(n, [fix_targets(s) for s in stmts]) for n, stmts in p]


def stmt_kinds(prog):
    out = set()
    for n, s in all_stmts(prog):
        if s[0] == "dev":
            out.add("dev:" + s[1])
        elif s[0] == "raw":
            out.add("raw:" + s[1][0])
        elif s[0] == "if":
            out.add("if:%s%s" % ("elif" if s[3] else "", "else" if s[4] is not None else ""))
        else:
            out.add(s[0])
    return out


def prog_key(prog):
    """Structural key of a program: statement kinds per line with expression shapes."""
    parts = []
    for n, s in all_stmts(prog):
        ex = ",".join(X.shape_key(e) for _, e in stmt_exprs(s))
        parts.append("%s[%s]" % (s[0] if s[0] != "dev" else s[1], ex))
    return ";".join(parts)
