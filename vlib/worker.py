import json
import sys

from . import boot, run


def main(argv):
    boot.assert_repo()
    if argv and argv[0] == "--one":
        pid, fn = argv[1], argv[2]
        mod = run.load_prop(pid)
        case = json.load(open(fn))
        obs = mod.run_case(case)
        obs.pop("sets", None)
        print(json.dumps(obs, default=str))
        return 0
    return run.worker_main(argv)


if __name__ == "__main__":
    sys.exit(main(sys.argv[1:]))
