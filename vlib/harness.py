"""Boundary wrappers around the real code and the two reference machines."""
import os
import sys
import time
import traceback

from . import boot

boot.assert_repo()

from coco.b09 import compiler as _compiler  # noqa: E402  (the code under observation)

from .b09ref.lexer import B09SyntaxError  # noqa: E402
from .b09ref.parser import parse_program  # noqa: E402
from .b09ref import interp as b09i  # noqa: E402
from .cbref import interp as cbi  # noqa: E402

COUNTERS = {"convert_calls": 0, "convert_ok": 0, "convert_refused": 0, "convert_internal": 0}

# ---- probe (evidence only, never a verdict): which rules of the tool's PEG grammar the workload reached.
# The module-level grammar object of the compiler is replaced by a proxy that delegates to the real grammar and
# walks the returned parse tree.
GRAMMAR_RULES_SEEN = set()


class _GrammarProbe(object):
    def __init__(self, real):
        self._real = real

    def parse(self, text, *a, **kw):
        tree = self._real.parse(text, *a, **kw)
        try:
            stack = [tree]
            seen = GRAMMAR_RULES_SEEN
            n = 0
            while stack and n < 20000:
                node = stack.pop()
                n += 1
                name = getattr(node, "expr_name", "")
                if name:
                    seen.add(name)
                stack.extend(node.children)
        except Exception:  # noqa: BLE001 - a probe must never change an outcome
            pass
        return tree

    def __getattr__(self, name):
        return getattr(self._real, name)


if os.environ.get("VERIF_PROBE", "1") == "1" and not isinstance(_compiler.grammar, _GrammarProbe):
    _compiler.grammar = _GrammarProbe(_compiler.grammar)


def _documented_classes():
    import parsimonious.exceptions as pe
    import pydantic
    from coco.b09.visitors import LineNumberTooLargeException

    return (pe.ParseError, _compiler.ParseError, LineNumberTooLargeException, pydantic.ValidationError)


def innermost_coco_frame(tb):
    site = None
    for fr in traceback.extract_tb(tb):
        fn = fr.filename.replace("\\", "/")
        if "/coco/" in fn:
            site = "%s:%s" % (os.path.basename(fn), fr.name)
    return site


def classify_exception(exc):
    """-> (documented: bool, class name of root cause, innermost coco function, message stem)"""
    import parsimonious.exceptions as pe

    root = exc
    if isinstance(exc, pe.VisitationError):
        # parsimonious re-raises anything a visitor method raised as VisitationError
        root = exc.__cause__ or exc.__context__ or exc
        documented = False
    else:
        documented = isinstance(exc, _documented_classes())
    tb = root.__traceback__ if root.__traceback__ is not None else exc.__traceback__
    site = innermost_coco_frame(tb) or innermost_coco_frame(exc.__traceback__)
    msg = str(root).split("\n")[0]
    stem = "".join(c if not c.isdigit() else "#" for c in msg)[:60]
    return documented, type(root).__name__, site, stem


def convert(text, **opts):
    """Run the real convert() and record the outcome at its boundary."""
    COUNTERS["convert_calls"] += 1
    t0 = time.process_time()
    try:
        out = _compiler.convert(text, **opts)
    except RecursionError as exc:
        COUNTERS["convert_internal"] += 1
        return {"ok": False, "documented": False, "exc": "RecursionError", "site": innermost_coco_frame(exc.__traceback__),
                "stem": "recursion", "cpu": time.process_time() - t0}
    except Exception as exc:  # noqa: BLE001 - the boundary monitor wants every class
        documented, cls, site, stem = classify_exception(exc)
        COUNTERS["convert_refused" if documented else "convert_internal"] += 1
        return {"ok": False, "documented": documented, "exc": cls, "site": site, "stem": stem,
                "cpu": time.process_time() - t0, "msg": str(exc)[:300]}
    COUNTERS["convert_ok"] += 1
    return {"ok": True, "out": out, "cpu": time.process_time() - t0}


def library(storage=32):
    return b09i.load_library(boot.ecb_path(), storage)[0]


def library_text():
    return b09i.load_library(boot.ecb_path(), 32)[1]


def parse_b09(out):
    """-> (procs, None) or (None, error dict)"""
    try:
        return parse_program(out), None
    except B09SyntaxError as exc:
        return None, {"msg": exc.msg, "line": exc.line, "col": exc.col, "text": exc.text}
    except RecursionError:
        return None, {"msg": "reference parser recursion limit", "line": None, "col": None, "text": None, "harness": True}


def run_b09(out, inputs=(), budget=20000, start_label=None, err=0, procs=None, tape_start=1, hyp_for_body_once=False, storage=32):
    """Execute emitted BASIC09 text with the reference interpreter."""
    if procs is None:
        procs, perr = parse_b09(out)
        if procs is None:
            return {"status": "parse", "error": perr, "events": [], "store": {}, "uninit": [], "mismatches": []}
    main = procs[-1]
    m = b09i.Machine(procs, library(storage), inputs=inputs, budget=budget, tape_start=tape_start)
    m.hyp_for_body_once = hyp_for_body_once
    res = {"status": "ok", "error": None}
    frame = None
    try:
        frame = m.run_main(main, start_label=start_label, err=err)
    except b09i.StepBudget:
        res["status"] = "budget"
    except b09i.B09RuntimeError as exc:
        res["status"] = "error"
        res["error"] = {"code": exc.code, "msg": exc.msg, "typeclash": isinstance(exc, b09i.TypeClash)}
    except B09SyntaxError as exc:
        res["status"] = "parse"
        res["error"] = {"msg": exc.msg, "line": exc.line, "col": None, "text": None}
    except RecursionError:
        res["status"] = "error"
        res["error"] = {"code": -1, "msg": "interpreter recursion", "typeclash": False}
    res["events"] = m.events
    res["steps"] = m.steps
    res["uninit"] = m.uninit
    res["mismatches"] = m.mismatches
    res["shadow_runs"] = getattr(m, "shadow_runs", 0)
    res["shadow_failed"] = getattr(m, "shadow_failed", 0)
    res["shadow_subscript"] = list(getattr(m, "shadow_subscript", []))
    res["store"] = b09i.dump_store(frame) if frame is not None else (
        b09i.dump_store(m._frame) if getattr(m, "_frame", None) is not None and m.depth == 0 else {})
    return res


def run_cb(prog, inputs=(), budget=5000, tape_start=1):
    m = cbi.CBMachine(prog, inputs=inputs, budget=budget, tape_start=tape_start)
    res = {"status": "ok", "error": None}
    try:
        m.run()
    except cbi.StepBudget:
        res["status"] = "budget"
    except cbi.OutOfDomain as exc:
        res["status"] = "ood"
        res["error"] = str(exc)
    except cbi.CBError as exc:
        res["status"] = "error"
        res["error"] = exc.code
    res["events"] = m.events
    res["steps"] = m.steps
    res["store"] = m.store()
    res["ended"] = m.ended
    res["zero_trip"] = m.zero_trip
    res["unassigned_reads"] = m.unassigned_reads
    return res


def b09_name(cb_name):
    """Identifier the tool is expected to use for a Color BASIC scalar name."""
    return cbi.canon(cb_name).lower()


def compare_stores(cb_store, b09_store, names=None):
    """Compare the variables of the source program with the emitted program's store.
    -> list of (name, cb value, b09 value) differences."""
    diffs = []
    for name, v in cb_store.items():
        if names is not None and name not in names:
            continue
        if name.startswith("arr_"):
            b = b09_store.get(name.lower())
            if b is None:
                diffs.append((name, "array", "missing"))
                continue
            dims = v["dims"]
            if list(b["dims"]) != list(dims):
                diffs.append((name, {"dims": dims}, {"dims": b["dims"]}))
                continue
            default = "" if name.endswith("$") else 0.0
            for key, cv in v["cells"].items():
                idx = [int(x) for x in key.split(",")]
                off = 0
                for d, i in zip(dims, idx):
                    off = off * d + i
                bv = b["v"][off]
                if not same_value(cv, bv):
                    diffs.append(("%s(%s)" % (name, key), cv, bv))
            continue
        b = b09_store.get(name.lower())
        if b is None:
            b = "" if name.endswith("$") else 0.0
        if not same_value(v, b):
            diffs.append((name, v, b))
    return diffs


def same_value(a, b):
    if isinstance(a, str) or isinstance(b, str):
        return a == b
    if isinstance(a, bool) or isinstance(b, bool):
        return False
    try:
        fa, fb = float(a), float(b)
    except (TypeError, ValueError):
        return False
    if fa == fb:
        return True
    if cbi.APPROX[0]:
        return abs(fa - fb) <= 1e-6 * max(1.0, abs(fa), abs(fb))
    return False


def print_stream(events):
    """Normalised PRINT/prompt stream: adjacent text merged."""
    out = []
    for ev in events:
        if ev[0] == "print":
            for t in ev[1:]:
                if t[0] == "s":
                    if t[1] == "":
                        continue
                    if out and out[-1][0] == "s":
                        out[-1] = ("s", out[-1][1] + t[1])
                    else:
                        out.append(("s", t[1]))
                else:
                    out.append(tuple(t))
        elif ev[0] == "prompt":
            out.append(("prompt", ev[1]))
        elif ev[0] == "input":
            out.append(("input", ev[2]))
        elif ev[0] in ("end", "stop"):
            out.append((ev[0],))
        elif ev[0] == "at":
            out.append(("at", float(ev[1])))
        elif ev[0] == "run" and ev[1] == "ecb_at":
            out.append(("at", float(ev[2][0])))
    return out
