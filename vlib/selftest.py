"""Self-checks of the trusted base (the two reference models).  `./check selftest` runs them all; the
behavioural checks run them too and turn inconclusive if any fails (an oracle that is wrong decides nothing).

Each BASIC09 snippet is executed by vlib/b09ref and compared with the values the reference manual dictates;
each Color BASIC snippet (abstract program) is executed by vlib/cbref."""
from .b09ref import interp as b09i
from .b09ref.lexer import B09SyntaxError
from .b09ref.parser import parse_program
from .cbref import exprparse
from .cbref.interp import CBMachine, CBError
from .gen import exprs as X

n = X.num

# (name, BASIC09 text, expected {var: value} | ('error', code) | ('syntax',))
B09_CASES = [
    ("precedence */ over +-", "a := 2 + 3 * 4", {"a": 14.0}),
    ("unary minus binds tighter than ^", "a := -2 ^ 2", {"a": 4.0}),
    ("unary minus on a variable before ^", "b := 3. \\ a := - b ^ 2.", {"a": 9.0}),
    ("^ associates left", "a := 2 ^ 3 ^ 2", {"a": 64.0}),
    ("parentheses", "a := 2 * (3 + 4)", {"a": 14.0}),
    ("integer division truncates", "a := 7 / 2", {"a": 3.0}),
    ("real division", "a := 7. / 2", {"a": 3.5}),
    ("integer division of negatives truncates toward zero", "a := -7 / 2", {"a": -3.0}),
    ("LAND LOR LXOR LNOT", "a := LAND(12, 10) \\ b := LOR(12, 10) \\ c := LXOR(12, 10) \\ d := LNOT(0)", {"a": 8.0, "b": 14.0, "c": 6.0, "d": -1.0}),
    ("LAND rounds real operands", "a := LAND(2.6, 3.)", {"a": 3.0}),
    ("relational and AND/OR are BOOLEAN", "dim t: boolean \\ t := 1 < 2 AND (3 = 3 OR 4 = 5) \\ if t then \\ a := 1 \\ else \\ a := 2 \\ endif", {"a": 1.0}),
    ("NOT needs a boolean", "a := 5 \\ if NOT(a = 5) then \\ b := 1 \\ else \\ b := 2 \\ endif", {"b": 2.0}),
    ("AND binds tighter than OR", "dim t: boolean \\ t := 1 = 1 OR 1 = 2 AND 1 = 3 \\ if t then \\ a := 1 \\ else \\ a := 0 \\ endif", {"a": 1.0}),
    ("IF on a number is a type clash", "a := 1 \\ if a then \\ b := 1 \\ endif", ("error", 66)),
    ("LAND of a boolean is a type clash", "a := LAND(1 = 1, 2)", ("error", 66)),
    ("assigning a boolean to a real is a type clash", "a := 1 = 1", ("error", 66)),
    ("FIX rounds, INT truncates", "a := FIX(2.5) \\ b := INT(2.7) \\ c := INT(-2.7) \\ d := FIX(-2.5)", {"a": 3.0, "b": 2.0, "c": -2.0, "d": -3.0}),
    ("FOR tests at the top", "a := 0 \\ for i = 5 to 1 \\ a := a + 1 \\ next i", {"a": 0.0}),
    ("FOR with negative step", "a := 0 \\ for i = 3 to 1 step -1 \\ a := a * 10 + i \\ next i", {"a": 321.0}),
    ("FOR evaluates bounds once", "b := 3 \\ a := 0 \\ for i = 1 to b \\ b := 10 \\ a := a + 1 \\ next i", {"a": 3.0}),
    ("FOR fractional step", "a := 0 \\ for i = 0 to 1 step .5 \\ a := a + 1 \\ next i", {"a": 3.0}),
    ("LOOP EXITIF ENDEXIT", "a := 0\nloop\n a := a + 1\n exitif a >= 3 then\n  b := 7\n endexit\nendloop\nc := 1", {"a": 3.0, "b": 7.0, "c": 1.0}),
    ("WHILE", "a := 0 \\ while a < 4 do \\ a := a + 1 \\ endwhile", {"a": 4.0}),
    ("REPEAT UNTIL", "a := 0 \\ repeat \\ a := a + 1 \\ until a >= 2", {"a": 2.0}),
    ("IF THEN line number", "a := 1\nif a = 1 then 30\na := 2\n30 b := 5", {"a": 1.0, "b": 5.0}),
    ("GOSUB RETURN", "a := 0\ngosub 100\na := a + 1\nend\n100 a := a + 10\nreturn", {"a": 11.0}),
    ("ON GOTO falls through when out of range", "a := 0\non 3 goto 10, 20\na := 9\nend\n10 a := 1\nend\n20 a := 2", {"a": 9.0}),
    ("ON GOTO selects", "a := 0\non 2 goto 10, 20\na := 9\nend\n10 a := 1\nend\n20 a := 2", {"a": 2.0}),
    ("string functions", 'a$ := "HELLO" \\ b$ := LEFT$(a$, 2) + RIGHT$(a$, 2) + MID$(a$, 2, 3) \\ c := LEN(a$) + ASC("A")', {"b$": "HELOELL", "c": 70.0}),
    ("MID$ past the end", 'a$ := MID$("ABC", 4, 2) \\ b$ := LEFT$("ABC", 9)', {"a$": "", "b$": "ABC"}),
    ("string truncation to the declared length", 'dim s: string[4] \\ s := "ABCDEFG"', {"s": "ABCD"}),
    ("undeclared string is 32 bytes", 'a$ := "0123456789012345678901234567890123456789"', {"a$": "01234567890123456789012345678901"}),
    ("CHR$ STR$ VAL", 'a$ := CHR$(65) + STR$(5.) + STR$(5) \\ b := VAL("2.5") + VAL("$FF")', {"a$": "A5.5", "b": 257.5}),
    ("base 0 array bounds", "base 0 \\ dim x(3) \\ x(2) := 5 \\ a := x(2)", {"a": 5.0}),
    ("base 0 array upper bound excluded", "base 0 \\ dim x(3) \\ x(3) := 5", ("error", 55)),
    ("base 1 default", "dim x(3) \\ x(3) := 5 \\ a := x(3)", {"a": 5.0}),
    ("subscript count must match", "base 0 \\ dim x(3) \\ x(1, 1) := 5", ("error", 76)),
    ("READ DATA RESTORE", 'read a, b$ \\ restore \\ read c \\ data 5, "X"', {"a": 5.0, "b$": "X", "c": 5.0}),
    ("READ class mismatch", 'read a$ \\ data 5', ("error", 70)),
    ("DATA items are expressions", "read a \\ data float($FF)", {"a": 255.0}),
    ("hex literal", "a := $1F + 1", {"a": 32.0}),
    ("records", "type p = x, y: integer; n: real \\ dim q: p \\ q.x := 3 \\ q.n := q.x * 1.5 \\ a := q.n", {"a": 4.5}),
    ("integer overflow on assignment", "dim i: integer \\ i := 40000", ("error", 52)),
    ("real to integer conversion rounds", "dim i: integer \\ i := 2.5 \\ a := i", {"a": 3.0}),
    ("missing ENDIF", "if 1 = 1 then\na := 1", ("syntax",)),
    ("empty argument", "a := LEFT$(, 1)", ("syntax",)),
    ("NEXT must match FOR", "for i = 1 to 2\nfor j = 1 to 2\nnext i\nnext j", ("syntax",)),
    ("two relational operators in a row", "if a < b <> 0.0 then 10", ("syntax",)),
    ("comment swallows the rest of the line", "a := 1 (* x *) \\ a := 2", {"a": 1.0}),
    ("library ecb_int is floor", "run ecb_int(-2.5, a) \\ run ecb_int(2.5, b) \\ run ecb_int(-2., c)", {"a": -3.0, "b": 2.0, "c": -2.0}),
    ("library ecb_str formats like PRINT", "run ecb_str(5., a$) \\ run ecb_str(.5, b$)", {"a$": " 5 ", "b$": " .5 "}),
    ("library ecb_val swallows errors", 'run ecb_val("12", a) \\ run ecb_val("X", b)', {"a": 12.0, "b": 0.0}),
    ("parameter arity is checked", "run ecb_int(1.)", ("error", 56)),
    ("unknown procedure", "run nosuchproc(1)", ("error", 43)),
    ("device stub records, result stub writes", "run ecb_button(1., a) \\ run ecb_button(1., b)", {"a": 1.0, "b": 2.0}),
]

A, B, C = ("var", "A"), ("var", "B"), ("var", "C")

# (name, expression text, expected tree in normal form via a second spelling with explicit parentheses)
CB_PARSE = [
    ("NOT binds tighter than AND", "NOT A AND B", "(NOT A) AND B"),
    ("NOT looser than relational", "NOT A = B", "NOT (A = B)"),
    ("unary minus looser than ^", "-A^2", "-(A^2)"),
    ("unary minus tighter than *", "-A*B", "(-A)*B"),
    ("^ associates left", "A^B^C", "(A^B)^C"),
    ("AND tighter than OR", "A OR B AND C", "A OR (B AND C)"),
    ("relational looser than +", "A+1=B*2", "(A+1)=(B*2)"),
    ("minus after ^", "A^-B", "A^(-B)"),
    ("prefix absorbs to the right", "A*NOT B+C", "A*(NOT (B+C))"),
]

# (name, program, expected store subset)
CB_RUN = [
    ("relational yields -1/0", [(10, [("let", A, ("bin", "=", n(1), n(1)), False), ("let", B, ("bin", "<", n(2), n(1)), False)])], {"A": -1.0, "B": 0.0}),
    ("NOT AND OR on 16-bit integers", [(10, [("let", A, ("un", "NOT", n(0)), False), ("let", B, ("bin", "AND", n(12), n(10)), False),
                                               ("let", C, ("bin", "OR", n(12), n(10)), False)])], {"A": -1.0, "B": 8.0, "C": 14.0}),
    ("FOR body runs at least once", [(10, [("let", A, n(0), False), ("for", "I", n(5), n(1), None), ("let", A, ("bin", "+", A, n(1)), False), ("next", ["I"])])], {"A": 1.0, "I": 6.0}),
    ("INT is floor, FIX truncates", [(10, [("let", A, ("fn", "INT", [("un", "-", n(2.5))]), False), ("let", B, ("fn", "FIX", [("un", "-", n(2.5))]), False)])], {"A": -3.0, "B": -2.0}),
    ("STR$ has sign position and no trailing blank", [(10, [("let", ("var", "A$"), ("fn", "STR$", [n(5)]), False), ("let", ("var", "B$"), ("fn", "STR$", [("un", "-", n(5))]), False)])], {"A$": " 5", "B$": "-5"}),
    ("INSTR", [(10, [("let", A, ("fn", "INSTR", [n(1), ("str", "HELLO"), ("str", "L")]), False), ("let", B, ("fn", "INSTR", [n(4), ("str", "HELLO"), ("str", "L")]), False),
                     ("let", C, ("fn", "INSTR", [n(9), ("str", "HELLO"), ("str", "")]), False)])], {"A": 3.0, "B": 4.0, "C": 0.0}),
    ("names are two characters", [(10, [("let", ("var", "ABC"), n(1), False), ("let", ("var", "ABD"), n(2), False), ("let", B, ("var", "AB"), False)])], {"B": 2.0}),
    ("undimensioned array 0..10", [(10, [("let", ("arr", "X", [n(10)]), n(7), False), ("let", A, ("arr", "X", [n(10)]), False)])], {"A": 7.0}),
    ("DATA: leading blanks dropped, trailing kept", [(10, [("data", [("u", "AB  "), ("q", " C "), ("u", "")]), ("read", [("var", "A$"), ("var", "B$"), A])])], {"A$": "AB  ", "B$": " C ", "A": 0.0}),
    ("IF false skips the rest of the line", [(10, [("let", A, n(1), False), ("if", ("bin", "=", A, n(2)), ("stmts", [("let", B, n(5), False)]), [], None)]),
                                              (20, [("let", C, n(9), False)])], {"B": None, "C": 9.0}),
    ("ON out of range falls through", [(10, [("let", A, n(0), False), ("on", n(3), "GOTO", [20, 20]), ("let", A, n(9), False), ("end",)]), (20, [("let", A, n(1), False)])], {"A": 9.0}),
    ("LET evaluates the target's subscript first", [(10, [("let", ("arr", "X", [("fn", "BUTTON", [n(0)])]), ("fn", "BUTTON", [n(0)]), False), ("let", A, ("arr", "X", [n(1)]), False)])], {"A": 2.0}),
]


def run(include_library=True):
    """-> list of failure descriptions (empty when the trusted base behaves as specified).
    include_library=False leaves out the snippets that execute procedures of the tool's own ecb.b09: they say something
    about the code under observation, not about the oracle, and must not turn a defect there into 'inconclusive'."""
    fails = []
    from . import harness

    lib = harness.library()
    for name, text, want in B09_CASES:
        if not include_library and name.startswith("library "):
            continue
        try:
            procs = parse_program(text)
            m = b09i.Machine(procs, lib, budget=5000)
            f = m.run_main(procs[0])
            got = b09i.dump_store(f)
        except B09SyntaxError as exc:
            if want != ("syntax",):
                fails.append("b09 %s: unexpected syntax error %s" % (name, exc))
            continue
        except b09i.B09RuntimeError as exc:
            if not (isinstance(want, tuple) and want[0] == "error" and want[1] == exc.code):
                fails.append("b09 %s: unexpected error %s" % (name, exc))
            continue
        if isinstance(want, tuple):
            fails.append("b09 %s: expected %r, ran to completion" % (name, want))
            continue
        for k, v in want.items():
            if got.get(k) != v:
                fails.append("b09 %s: %s = %r, expected %r" % (name, k, got.get(k), v))
    for name, a, b in CB_PARSE:
        ta, tb = exprparse.normal(exprparse.parse(a)), exprparse.normal(exprparse.parse(b))
        if ta != tb:
            fails.append("cb parse %s: %r groups as %r" % (name, a, ta))
    for name, prog, want in CB_RUN:
        m = CBMachine(prog)
        try:
            m.run()
        except CBError as exc:
            fails.append("cb %s: unexpected %s" % (name, exc))
            continue
        st = m.store()
        for k, v in want.items():
            if st.get(k) != v:
                fails.append("cb %s: %s = %r, expected %r" % (name, k, st.get(k), v))
    return fails


def count():
    return len(B09_CASES) + len(CB_PARSE) + len(CB_RUN)
