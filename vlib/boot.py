"""Pins what is being observed: the coco package under $VERIF_REPO (default /repo)."""
import os
import sys

REPO = os.path.realpath(os.environ.get("VERIF_REPO", "/repo"))


def assert_repo():
    if REPO not in [os.path.realpath(p) for p in sys.path if p]:
        sys.path.insert(0, REPO)
    import coco

    here = os.path.realpath(os.path.dirname(os.path.dirname(coco.__file__)))
    if here != REPO:
        print("INCONCLUSIVE reason=coco imported from %s, expected %s" % (here, REPO))
        sys.exit(2)


def ecb_path():
    return os.path.join(REPO, "coco", "resources", "ecb.b09")
