"""Independent Color BASIC expression parser (Microsoft FRMEVL operator-precedence algorithm
with the Extended Color BASIC table).  Used only to self-check the renderer: parsing the
rendered text must reproduce the abstract tree the reference interpreter evaluates."""
import re

# binary operator precedences as in the ROM table (higher binds tighter)
BINPREC = {"+": 0x79, "-": 0x79, "*": 0x7B, "/": 0x7B, "^": 0x7F, "AND": 0x50, "OR": 0x46,
           "=": 0x64, "<>": 0x64, "<": 0x64, ">": 0x64, "<=": 0x64, ">=": 0x64}
NEG_PREC = 0x7D
NOT_PREC = 0x5A

_TOK = re.compile(
    r"\s*(?:(?P<num>(?:\d+\.?\d*|\.\d+)(?:\s*E\s*[+-]?\s*\d+)?)"
    r"|(?P<hex>&\s*H\s*[0-9A-F]+)"
    r'|(?P<str>"[^"]*")'
    r"|(?P<id>[A-Z][A-Z0-9]*\$?)"
    r"|(?P<op><=|>=|<>|=<|=>|[-+*/^=<>(),]))")

FUNCS = {"ABS", "ATN", "COS", "EXP", "FIX", "LEN", "LOG", "PEEK", "RND", "SGN", "SIN", "SQR", "TAN", "ASC",
         "VAL", "CHR$", "LEFT$", "RIGHT$", "MID$", "STR$", "HEX$", "INT", "INSTR", "STRING$", "INKEY$",
         "BUTTON", "JOYSTK", "POINT", "VARPTR", "ERNO", "TAB"}


def tokenize(text):
    pos = 0
    out = []
    while pos < len(text):
        if text[pos:].strip() == "":
            break
        m = _TOK.match(text, pos)
        if not m:
            raise ValueError("cannot tokenize %r at %d" % (text, pos))
        pos = m.end()
        k = m.lastgroup
        out.append((k, m.group(k)))
    return out


class P(object):
    def __init__(self, toks):
        self.t = toks
        self.i = 0

    def peek(self):
        return self.t[self.i] if self.i < len(self.t) else (None, None)

    def frmevl(self, prec=0):
        left = self.operand()
        while True:
            k, v = self.peek()
            op = None
            if k == "op" and v in BINPREC:
                op = v
            elif k == "op" and v in ("=<", "=>"):
                op = {"=<": "<=", "=>": ">="}[v]
            elif k == "id" and v in ("AND", "OR"):
                op = v
            if op is None or BINPREC[op] <= prec:
                return left
            self.i += 1
            right = self.frmevl(BINPREC[op])
            left = ("bin", op, left, right)

    def operand(self):
        k, v = self.peek()
        if k is None:
            raise ValueError("missing operand")
        self.i += 1
        if k == "num":
            s = v.replace(" ", "")
            return ("num", float(s))
        if k == "hex":
            return ("num", float(int(v.replace(" ", "")[2:], 16)))
        if k == "str":
            return ("str", v[1:-1])
        if k == "op" and v == "-":
            return ("un", "-", self.frmevl(NEG_PREC))
        if k == "op" and v == "+":
            return ("un", "+", self.frmevl(NEG_PREC))
        if k == "id" and v == "NOT":
            return ("un", "NOT", self.frmevl(NOT_PREC))
        if k == "op" and v == "(":
            e = self.frmevl(0)
            self.need(")")
            return e
        if k == "id":
            if v in FUNCS:
                args = []
                if self.peek() == ("op", "("):
                    args = self.args()
                return ("fn", v, args)
            if self.peek() == ("op", "("):
                return ("arr", v, self.args())
            return ("var", v)
        raise ValueError("bad operand %r" % (v,))

    def need(self, v):
        if self.peek() != ("op", v):
            raise ValueError("expected %s got %r" % (v, self.peek()))
        self.i += 1

    def args(self):
        self.need("(")
        out = [self.frmevl(0)]
        while self.peek() == ("op", ","):
            self.i += 1
            out.append(self.frmevl(0))
        self.need(")")
        return out


def parse(text):
    p = P(tokenize(text))
    e = p.frmevl(0)
    if p.i != len(p.t):
        raise ValueError("trailing tokens in %r" % text)
    return e


def normal(e):
    """Normal form shared by the abstract trees and the parser's trees (no 'par' nodes,
    literals by value)."""
    k = e[0]
    if k == "par":
        return normal(e[1])
    if k == "num":
        return ("num", float(e[1]))
    if k == "hex":
        return ("num", float(e[1]))
    if k == "str":
        return ("str", e[1])
    if k == "var":
        return ("var", e[1])
    if k == "arr":
        return ("arr", e[1], [normal(a) for a in e[2]])
    if k == "fn":
        return ("fn", e[1], [normal(a) for a in e[2]])
    if k == "un":
        return ("un", e[1], normal(e[2]))
    if k == "bin":
        return ("bin", {"=<": "<=", "=>": ">="}.get(e[1], e[1]), normal(e[2]), normal(e[3]))
    raise ValueError(e)
