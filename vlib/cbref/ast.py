"""Abstract Color BASIC programs and their rendering to text.

Expressions (tuples):
  ('num', value, spelling)      spelling: list of literal pieces, e.g. ['12'], ['1','E','3'], ['.5']
  ('hex', value, digits)        &H<digits>
  ('str', text)
  ('var', name)                 name as written, '$' suffix for strings, e.g. 'A', 'AB', 'A$'
  ('arr', name, [e...])
  ('un', op, e)                 op: '-', '+', 'NOT'
  ('bin', op, a, b)             + - * / ^ AND OR = <> < > <= >=
  ('par', e)                    explicit (source) parentheses
  ('fn', NAME, [e...])
Statements (tuples):
  ('let', target, e, let_kw)            target: ('var',..)|('arr',..)
  ('print', items, at)                  items: ('e', expr)|('sep', ';' or ','); at: expr or None
  ('if', cond, then, elifs, else_)      branches: ('line', n) | ('stmts', [stmt...]); elifs [(cond, branch)]
  ('for', var, a, b, step)  ('next', [names])
  ('goto', n) ('gosub', n) ('return',) ('on', e, 'GOTO'|'GOSUB', [n...]) ('end',) ('stop',)
  ('dim', [(name, [int bounds], [spellings])])
  ('data', [item...])   item: ('q', text) | ('u', text) | ('n', value, spelling) | ('h', value, digits)
  ('read', [targets]) ('restore',)
  ('input', prompt or None, [targets], is_line)
  ('rem', text, token)   token: 'REM' or "'"
  ('onerr', n) ('onbrk', n)
  ('dev', KIND, {...})   device statements, see vlib/gen/devices.py
  ('raw', [tokens])      pre-rendered tokens (used by mutation workloads)
Program: list of (linenum, [stmt...]).

Rendering produces a token list [(text, gap)] where gap describes the boundary BEFORE the token:
  'start' first token of a line, 'req' at least one blank, 'soft' 0..2 blanks allowed,
  'lit' inside a numeric literal (0..2 blanks allowed by the property's statement),
  'none' no blank may be inserted.
"""

PREC = {"OR": 1, "AND": 2, "NOT": 3, "=": 4, "<>": 4, "<": 4, ">": 4, "<=": 4, ">=": 4, "=<": 4, "=>": 4,
        "+": 5, "-": 5, "*": 6, "/": 6, "NEG": 7, "^": 8}
RELOPS = ("=", "<>", "<", ">", "<=", ">=")


def is_str(e):
    k = e[0]
    if k in ("str", "ostr"):
        return True
    if k in ("var", "arr"):
        return e[1].endswith("$")
    if k == "par":
        return is_str(e[1])
    if k == "bin":
        return e[1] == "+" and is_str(e[2])
    if k == "fn":
        return e[1].endswith("$")
    return False


def e_prec(e):
    k = e[0]
    if k == "bin":
        return PREC[e[1]]
    if k == "un":
        return PREC["NOT"] if e[1] == "NOT" else PREC["NEG"]
    if k == "num" and e[1] < 0:
        return PREC["NEG"]
    return 99


def _word(t):
    return t[:1].isalnum() or t[:1] == "&"


def _wordend(t):
    return t[-1:].isalnum()


class R(object):
    """Token accumulator."""

    def __init__(self):
        self.t = []

    def add(self, text, gap=None):
        if gap is None:
            if not self.t:
                gap = "start"
            else:
                prev = self.t[-1][0]
                gap = "req" if (_wordend(prev) and _word(text)) else "soft"
        self.t.append((text, gap))

    def num(self, e):
        pieces = e[2]
        first = True
        for p in pieces:
            self.add(p, None if first else "lit")
            first = False

    def expr(self, e, parent=0, right=False):
        k = e[0]
        if k == "num":
            self.num(e)
        elif k == "hex":
            self.add("&")
            self.add("H", "lit")
            self.add(e[2], "lit")
        elif k == "str":
            self.add('"%s"' % e[1])
        elif k == "ostr":
            # a string literal whose closing quote is left out: legal as the very end of a line (the text runs to the line end)
            self.add('"%s' % e[1])
        elif k == "var":
            self.add(e[1])
        elif k == "arr":
            self.add(e[1])
            self.add("(")
            for i, a in enumerate(e[2]):
                if i:
                    self.add(",")
                self.expr(a)
            self.add(")")
        elif k == "par":
            self.add("(")
            self.expr(e[1])
            self.add(")")
        elif k == "fn":
            self.add(e[1])
            if e[2] or e[1] not in ("INKEY$", "ERNO"):
                self.add("(")
                for i, a in enumerate(e[2]):
                    if i:
                        self.add(",")
                    self.expr(a)
                self.add(")")
        elif k == "un":
            p = e_prec(e)
            need = p < parent
            if need:
                self.add("(")
            self.add(e[1])
            # operand of a prefix operator is parsed at the operator's own level
            self.expr(e[2], p, False)
            if need:
                self.add(")")
        elif k == "bin":
            p = PREC[e[1]]
            need = p < parent or (p == parent and right)
            if need:
                self.add("(")
            self.expr(e[2], p, False)
            self.add(e[1])
            self.expr(e[3], p, True)
            if need:
                self.add(")")
        else:
            raise ValueError("bad expr %r" % (e,))

    def target(self, t):
        self.expr(t)

    def branch(self, b):
        if b[0] == "line":
            self.add(str(b[1]))
        else:
            self.stmts(b[1])

    def stmts(self, lst):
        for i, s in enumerate(lst):
            if i:
                prev = lst[i - 1]
                if prev[0] == "data" and prev[1] and prev[1][-1][0] == "u":
                    # trailing blanks of an unquoted DATA item are content in both languages
                    self.add(":", "none")
                else:
                    self.add(":")
            self.stmt(s)

    def stmt(self, s):
        k = s[0]
        if k == "let":
            if s[3]:
                self.add("LET")
            self.target(s[1])
            self.add("=")
            self.expr(s[2])
        elif k == "print":
            self.add("PRINT")
            if s[2] is not None:
                self.add("@")
                self.expr(s[2])
                if s[1]:
                    self.add(",")
            for it in s[1]:
                if it[0] == "sep":
                    self.add(it[1])
                else:
                    self.expr(it[1])
        elif k == "if":
            self.add("IF")
            self.expr(s[1])
            self.add("THEN")
            self.branch(s[2])
            for c, b in s[3]:
                self.add("ELSE")
                self.add("IF")
                self.expr(c)
                self.add("THEN")
                self.branch(b)
            if s[4] is not None:
                self.add("ELSE")
                self.branch(s[4])
        elif k == "for":
            self.add("FOR")
            self.add(s[1])
            self.add("=")
            self.expr(s[2])
            self.add("TO")
            self.expr(s[3])
            if s[4] is not None:
                self.add("STEP")
                self.expr(s[4])
        elif k == "next":
            self.add("NEXT")
            for i, v in enumerate(s[1]):
                if i:
                    self.add(",")
                self.add(v)
        elif k in ("goto", "gosub"):
            self.add(k.upper())
            self.add(str(s[1]))
        elif k == "return":
            self.add("RETURN")
        elif k == "end":
            self.add("END")
        elif k == "stop":
            self.add("STOP")
        elif k == "restore":
            self.add("RESTORE")
        elif k == "on":
            self.add("ON")
            self.expr(s[1])
            self.add(s[2])
            for i, n in enumerate(s[3]):
                if i:
                    self.add(",")
                self.add(str(n))
        elif k == "onerr":
            self.add("ON")
            self.add("ERR")
            self.add("GOTO")
            self.add(str(s[1]))
        elif k == "onbrk":
            self.add("ON")
            self.add("BRK")
            self.add("GOTO")
            self.add(str(s[1]))
        elif k == "dim":
            self.add("DIM")
            for i, (name, bounds, spell) in enumerate(s[1]):
                if i:
                    self.add(",")
                self.add(name)
                if bounds:
                    self.add("(")
                    for j, sp in enumerate(spell):
                        if j:
                            self.add(",")
                        if sp.startswith("&H"):
                            self.add("&")
                            self.add("H", "lit")
                            self.add(sp[2:], "lit")
                        else:
                            self.add(sp)
                    self.add(")")
        elif k == "data":
            self.add("DATA")
            for i, it in enumerate(s[1]):
                if i:
                    # blanks before the comma are content after an unquoted item, layout after the other kinds
                    self.add(",", "none" if s[1][i - 1][0] == "u" else "soft")
                if it[0] == "q":
                    self.add('"%s"' % it[1], "soft")
                elif it[0] == "u":
                    # unquoted item: leading blanks are skipped by both languages, the rest is content
                    self.add(it[1], "soft" if it[1] else "none")
                elif it[0] == "n":
                    first = True
                    for p in it[2]:
                        self.add(p, "soft" if first else "lit")
                        first = False
                elif it[0] == "h":
                    self.add("&", "soft")
                    self.add("H", "lit")
                    self.add(it[2], "lit")
        elif k == "read":
            self.add("READ")
            for i, t in enumerate(s[1]):
                if i:
                    self.add(",")
                self.target(t)
        elif k == "input":
            if s[3]:
                self.add("LINE")
            self.add("INPUT")
            if s[1] is not None:
                self.add('"%s"' % s[1])
                self.add(";")
            for i, t in enumerate(s[2]):
                if i:
                    self.add(",")
                self.target(t)
        elif k == "rem":
            self.add(s[2] + s[1])
        elif k == "raw":
            for t in s[1]:
                self.add(t)
        elif k == "dev":
            from ..gen import devices

            devices.render(self, s)
        else:
            raise ValueError("bad stmt %r" % (s,))


def render_tokens(prog):
    """-> list of lines, each a list of (text, gap)."""
    lines = []
    for num, stmts in prog:
        r = R()
        r.add(str(num))
        r.stmts(stmts)
        lines.append(r.t)
    return lines


def join(tokens, blanks=None):
    """Join one line's tokens.  blanks: optional callable(index, gap) -> number of blanks."""
    out = []
    for i, (text, gap) in enumerate(tokens):
        if gap == "start":
            n = 0
        elif blanks is not None:
            n = blanks(i, gap)
            if gap == "req" and n < 1:
                n = 1
            if gap == "none":
                n = 0
        else:
            n = 1 if gap in ("req", "soft") else 0
        out.append(" " * n + text)
    return "".join(out)


def render(prog, blanks=None, eol="\n"):
    return eol.join(join(t, blanks) for t in render_tokens(prog)) + eol


def render_expr(e):
    r = R()
    r.expr(e)
    return join(r.t)


def render_expr_compact(e):
    r = R()
    r.expr(e)
    return join(r.t, lambda i, g: 0)
