"""Color BASIC reference interpreter over abstract programs (vlib/cbref/ast.py).
Semantics modelled: DESIGN.md 3.1."""
import math

from .ast import is_str


# hypotheses under which a known library defect is emulated on the source side (used only for diagnosis:
# "is the whole divergence explained by exactly this defect?")
HYPOTHESIS = set()


class CBError(Exception):
    def __init__(self, code, msg=""):
        Exception.__init__(self, "?%s ERROR %s" % (code, msg))
        self.code = code


class OutOfDomain(Exception):
    """The valuation left the region where the two machines' arithmetic is known to agree."""


class StepBudget(Exception):
    pass


def canon(name):
    if name.endswith("$"):
        return name[:-1][:2] + "$"
    return name[:2]


def fmt_num(x):
    """PRINT / STR$ spelling of a number in Color BASIC (sign-or-blank prefix, no trailing blank here)."""
    if x == 0:
        return " 0"
    sign = "-" if x < 0 else " "
    a = abs(x)
    if float(a).is_integer() and a < 1e9:
        return sign + "%d" % int(a)
    s = repr(float(a))
    if "e" in s:
        raise OutOfDomain("number formatting of %r" % x)
    if s.startswith("0."):
        s = s[1:]
    return sign + s


APPROX = [False]     # when set, values need not be exactly representable: results are compared with a tolerance


def nice(x):
    if APPROX[0]:
        if x != x or abs(x) > 1e12:
            raise OutOfDomain("magnitude %r" % x)
        return float(x)
    if x != x or abs(x) > 1e6:
        raise OutOfDomain("magnitude %r" % x)
    if not float(x * 64).is_integer():
        raise OutOfDomain("not a multiple of 1/64: %r" % x)
    return float(x)


def int16(x, what):
    if not float(x).is_integer():
        raise OutOfDomain("logic operand not integral: %r (%s)" % (x, what))
    if x < -32768 or x > 32767:
        raise CBError("FC", what)
    return int(x)


def val_parse(s, val=False):
    """VAL / READ numeric parse for the spellings the generators produce; anything else is out of domain.
    val=True: the VAL function (a text that does not begin like a number is 0; READ reports a syntax error there)."""
    t = s.replace(" ", "")
    if t == "":
        return 0.0
    if val and t[0] not in "0123456789.+-&":
        # no number at the front at all: the ROM routine stops at once and the value is 0 (texts that BEGIN like a number
        # and go on with something else - 12AB - stay out of domain: the value of the numeric prefix is not modelled)
        return 0.0
    try:
        if t.upper().startswith("&H"):
            return float(int(t[2:], 16))
        if any(c not in "0123456789.+-E" for c in t.upper()):
            raise ValueError(t)
        # the ROM's ASCII-to-float routine: a run of signs (each minus toggles), digits with at most one point (none at
        # all is zero: a lone '.' reads as 0), an optional E with optional sign and digits (missing digits: E0)
        import re as _re
        m = _re.fullmatch(r"([+-]*)(\d*)(?:\.(\d*))?(?:E([+-]?)(\d*))?", t.upper())
        if not m:
            raise ValueError(t)
        signs, ip, fp, es, ed = m.groups()
        mant = float((ip or "0") + "." + (fp or "0"))
        v = mant * 10.0 ** (int((es or "") + (ed or "0")) if ed else 0)
        return -v if signs.count("-") % 2 else v
    except ValueError:
        raise OutOfDomain("VAL of %r" % s)


class CBMachine(object):
    def __init__(self, prog, inputs=(), tape_start=1, budget=5000):
        self.prog = prog
        self.line_index = {}
        for i, (n, _) in enumerate(prog):
            self.line_index[n] = i
        self.inputs = list(inputs)
        self.in_pos = 0
        self.tape = tape_start
        self.rnd = 0
        self.budget = budget
        self.steps = 0
        self.events = []
        self.vars = {}
        self.arrays = {}
        self.data = []
        for n, stmts in prog:
            self._collect_data(stmts)
        self.dp = 0
        self.for_stack = []
        self.gosub_stack = []
        self.ended = None
        self.play_octo = 0
        self.zero_trip = False
        self.unassigned_reads = 0

    def _collect_data(self, stmts):
        for s in stmts:
            if s[0] == "data":
                self.data.extend(s[1])
            elif s[0] == "if":
                for b in [s[2]] + [b for _, b in s[3]] + ([s[4]] if s[4] is not None else []):
                    if b[0] == "stmts":
                        self._collect_data(b[1])

    # ------------------------------------------------ values
    def get(self, name):
        c = canon(name)
        if c not in self.vars:
            self.vars[c] = "" if c.endswith("$") else 0.0
            self.unassigned_reads += 1
        return self.vars[c]

    def set(self, name, v):
        c = canon(name)
        if c.endswith("$"):
            if not isinstance(v, str):
                raise CBError("TM", name)
            if len(v) > 255:
                raise CBError("LS", name)
        else:
            if isinstance(v, str):
                raise CBError("TM", name)
            v = float(v)
        self.vars[c] = v

    def arr(self, name, idx, create_dims=None):
        c = canon(name)
        if c not in self.arrays:
            dims = [11] * len(idx)
            self.arrays[c] = (dims, {})
        dims, cells = self.arrays[c]
        if len(idx) != len(dims):
            raise CBError("BS", "%s: %d subscripts for %d dims" % (name, len(idx), len(dims)))
        key = []
        for i, d in zip(idx, dims):
            if isinstance(i, str):
                raise CBError("TM", "subscript")
            if not float(i).is_integer():
                raise OutOfDomain("fractional subscript")
            i = int(i)
            if i < 0 or i >= d:
                raise CBError("BS", "%s(%d)" % (name, i))
            key.append(i)
        return cells, tuple(key), c

    def aget(self, name, idx):
        cells, key, c = self.arr(name, idx)
        return cells.get(key, "" if c.endswith("$") else 0.0)

    def aset(self, name, idx, v):
        cells, key, c = self.arr(name, idx)
        if c.endswith("$") != isinstance(v, str):
            raise CBError("TM", name)
        if isinstance(v, str) and len(v) > 255:
            raise CBError("LS", name)
        cells[key] = v if isinstance(v, str) else float(v)

    def assign(self, target, v):
        if target[0] == "var":
            self.set(target[1], v)
        else:
            idx = [self.ev(a) for a in target[2]]
            self.aset(target[1], idx, v)

    # ------------------------------------------------ expressions
    def ev(self, e):
        k = e[0]
        if k == "num":
            return float(e[1])
        if k == "hex":
            return float(e[1])
        if k in ("str", "ostr"):
            return e[1]
        if k == "var":
            return self.get(e[1])
        if k == "arr":
            return self.aget(e[1], [self.ev(a) for a in e[2]])
        if k == "par":
            return self.ev(e[1])
        if k == "un":
            v = self.ev(e[2])
            if isinstance(v, str):
                raise CBError("TM", "unary")
            if e[1] == "-":
                return -v
            if e[1] == "+":
                return v
            return float(~int16(v, "NOT"))
        if k == "bin":
            a = self.ev(e[2])
            b = self.ev(e[3])
            return self.binop(e[1], a, b)
        if k == "fn":
            return self.fn(e[1], [self.ev(a) for a in e[2]], e)
        raise ValueError(e)

    def binop(self, op, a, b):
        op = {"=<": "<=", "=>": ">="}.get(op, op)      # alternative spellings of the same operators
        sa, sb = isinstance(a, str), isinstance(b, str)
        if sa != sb:
            raise CBError("TM", op)
        if sa:
            if op == "+":
                r = a + b
                if len(r) > 255:
                    raise CBError("LS", "concatenation")
                return r
            if op == "=":
                return -1.0 if a == b else 0.0
            if op == "<>":
                return -1.0 if a != b else 0.0
            if op == "<":
                return -1.0 if a < b else 0.0
            if op == ">":
                return -1.0 if a > b else 0.0
            if op == "<=":
                return -1.0 if a <= b else 0.0
            if op == ">=":
                return -1.0 if a >= b else 0.0
            raise CBError("TM", op)
        if op == "+":
            return nice(a + b)
        if op == "-":
            return nice(a - b)
        if op == "*":
            return nice(a * b)
        if op == "/":
            if b == 0:
                raise CBError("/0")
            return nice(a / b)
        if op == "^":
            if a == 0 and b < 0:
                raise CBError("/0")
            if a < 0 and not float(b).is_integer():
                raise CBError("FC", "power")
            if abs(b) > 12:
                raise OutOfDomain("exponent")
            try:
                return nice(math.pow(a, b))
            except OverflowError:
                raise CBError("OV")
        if op == "AND":
            return float(int16(a, "AND") & int16(b, "AND"))
        if op == "OR":
            return float(int16(a, "OR") | int16(b, "OR"))
        if op == "=":
            return -1.0 if a == b else 0.0
        if op == "<>":
            return -1.0 if a != b else 0.0
        if op == "<":
            return -1.0 if a < b else 0.0
        if op == ">":
            return -1.0 if a > b else 0.0
        if op == "<=":
            return -1.0 if a <= b else 0.0
        if op == ">=":
            return -1.0 if a >= b else 0.0
        raise ValueError(op)

    def byte(self, v, what):
        if isinstance(v, str):
            raise CBError("TM", what)
        if not float(v).is_integer():
            raise OutOfDomain("fractional %s" % what)
        if v < 0 or v > 255:
            raise CBError("FC", what)
        return int(v)

    def fn(self, name, a, node):
        def num(i):
            if isinstance(a[i], str):
                raise CBError("TM", name)
            return a[i]

        def st(i):
            if not isinstance(a[i], str):
                raise CBError("TM", name)
            return a[i]

        if name == "ABS":
            return abs(num(0))
        if name == "SGN":
            v = num(0)
            return float((v > 0) - (v < 0))
        if name == "INT":
            v = float(math.floor(num(0)))
            self.events.append(("call", "INT", (num(0),), v))
            return v
        if name == "FIX":
            return float(math.trunc(num(0)))
        if name == "SQR":
            v = num(0)
            if v < 0:
                raise CBError("FC", "SQR")
            r = math.sqrt(v)
            return nice(r)
        if name in ("SIN", "COS", "TAN", "ATN", "EXP", "LOG") and APPROX[0]:
            v = num(0)
            if name == "LOG" and v <= 0:
                raise CBError("FC", "LOG")
            if name == "EXP" and v > 80:
                raise CBError("OV", "EXP")
            return {"SIN": math.sin, "COS": math.cos, "TAN": math.tan, "ATN": math.atan, "EXP": math.exp, "LOG": math.log}[name](v)
        if name in ("SIN", "COS", "TAN", "ATN", "EXP", "LOG"):
            v = num(0)
            if v != 0:
                raise OutOfDomain("transcendental of non-zero")
            if name == "LOG":
                raise CBError("FC", "LOG")
            return {"SIN": 0.0, "COS": 1.0, "TAN": 0.0, "ATN": 0.0, "EXP": 1.0}[name]
        if name == "RND":
            num(0)
            self.rnd += 1
            self.events.append(("rnd", a[0]))
            return float(self.rnd)
        if name == "PEEK":
            v = num(0)
            if not float(v).is_integer() or v < 0 or v > 32767:
                raise OutOfDomain("PEEK address")
            self.events.append(("peek", int(v)))
            return float((int(v) * 7 + 3) % 256)
        if name == "LEN":
            return float(len(st(0)))
        if name == "ASC":
            s = st(0)
            if not s:
                raise CBError("FC", "ASC")
            return float(ord(s[0]))
        if name == "CHR$":
            return chr(self.byte(a[0], "CHR$"))
        if name == "VAL":
            r = val_parse(st(0), val=True)
            self.events.append(("call", "VAL", (st(0),), r))
            return r
        if name == "STR$":
            r = fmt_num(num(0))
            if "STR$-trailing-blank" in HYPOTHESIS:
                # ecb_str: " " + BASIC09's spelling + " "  (a trailing blank always, an extra leading one for negatives)
                r = (" " if num(0) < 0 else "") + r + " "
            self.events.append(("call", "STR$", (num(0),), r))
            return r
        if name == "HEX$":
            v = num(0)
            if not float(v).is_integer():
                raise OutOfDomain("HEX$ fraction")
            if v < 0 or v > 65535:
                raise CBError("FC", "HEX$")
            r = "%X" % int(v)
            self.events.append(("call", "HEX$", (v,), r))
            return r
        if name == "LEFT$":
            n = self.byte(a[1], name)
            return st(0)[:n]
        if name == "RIGHT$":
            n = self.byte(a[1], name)
            s = st(0)
            return s[len(s) - n:] if n <= len(s) else s
        if name == "MID$":
            s = st(0)
            m = self.byte(a[1], name)
            if m == 0:
                raise CBError("FC", "MID$")
            n = self.byte(a[2], name) if len(a) > 2 else 255
            return s[m - 1:m - 1 + n]
        if name == "INSTR":
            start = self.byte(a[0], name)
            if start == 0:
                raise CBError("FC", "INSTR")
            s, p = st(1), st(2)
            if start > len(s):
                r = 0.0
            elif p == "":
                r = float(start)
            else:
                r = float(s.find(p, start - 1) + 1)
            self.events.append(("call", "INSTR", (float(start), s, p), r))
            return r
        if name == "STRING$":
            n = self.byte(a[0], name)
            if isinstance(a[1], str):
                if not a[1]:
                    raise CBError("FC", "STRING$")
                ch = a[1][0]
            else:
                ch = chr(self.byte(a[1], name))
            r = ch * n
            self.events.append(("call", "STRING$", (float(n), a[1]), r))
            return r
        if name in ("BUTTON", "JOYSTK", "POINT"):
            for i in range(len(a)):
                num(i)
            t = self.tape
            self.tape += 1
            self.events.append(("call", name, tuple(float(x) for x in a), float(t)))
            return float(t)
        if name == "INKEY$":
            t = self.tape
            self.tape += 1
            self.events.append(("call", "INKEY$", (), "K%d" % t))
            return "K%d" % t
        if name == "ERNO":
            return -1.0
        if name == "TAB":
            return ("tab", self.byte(a[0], name))
        if name == "VARPTR":
            return 0.0
        raise ValueError("function %s not modelled" % name)

    # ------------------------------------------------ execution
    def run(self):
        self.line = 0
        self.cur = self.prog[0][1] if self.prog else []
        self.idx = 0
        while self.ended is None:
            if self.idx >= len(self.cur):
                self.line += 1
                if self.line >= len(self.prog):
                    self.ended = "eof"
                    break
                self.cur = self.prog[self.line][1]
                self.idx = 0
                continue
            s = self.cur[self.idx]
            self.idx += 1
            self.steps += 1
            if self.steps > self.budget:
                raise StepBudget()
            self.step(s)
        return self

    def jump(self, n):
        if n not in self.line_index:
            raise CBError("UL", str(n))
        self.line = self.line_index[n]
        self.cur = self.prog[self.line][1]
        self.idx = 0

    def enter(self, branch):
        if branch[0] == "line":
            self.jump(branch[1])
        else:
            self.cur = branch[1]
            self.idx = 0

    def truth(self, v):
        if isinstance(v, str):
            raise CBError("TM", "IF")
        return v != 0

    def step(self, s):
        k = s[0]
        if k == "let":
            # LET locates the target first (evaluating its subscripts), then evaluates the expression
            if s[1][0] == "arr":
                idx = [self.ev(a) for a in s[1][2]]
                self.aset(s[1][1], idx, self.ev(s[2]))
            else:
                self.assign(s[1], self.ev(s[2]))
        elif k == "print":
            if s[2] is not None:
                loc = self.ev(s[2])
                self.events.append(("at", loc))
            toks = []
            for it in s[1]:
                if it[0] == "sep":
                    if it[1] == ",":
                        toks.append(("zone",))
                else:
                    v = self.ev(it[1])
                    if isinstance(v, tuple):
                        toks.append(v)
                    elif isinstance(v, str):
                        toks.append(("s", v))
                    else:
                        self.events.append(("call", "PRINTNUM", (v,), fmt_num(v) + " "))
                        toks.append(("s", fmt_num(v) + " "))
            if not s[1] or s[1][-1][0] != "sep":
                toks.append(("nl",))
            if s[2] is not None and not s[1] and "PRINT@-empty-no-newline" in HYPOTHESIS:
                return
            self.events.append(("print",) + tuple(toks))
        elif k == "if":
            if self.truth(self.ev(s[1])):
                self.enter(s[2])
                return
            for c, b in s[3]:
                if self.truth(self.ev(c)):
                    self.enter(b)
                    return
            if s[4] is not None:
                self.enter(s[4])
            else:
                self.idx = len(self.cur)
        elif k == "for":
            a = self.ev(s[2])
            b = self.ev(s[3])
            st = self.ev(s[4]) if s[4] is not None else 1.0
            if isinstance(a, str) or isinstance(b, str) or isinstance(st, str):
                raise CBError("TM", "FOR")
            self.set(s[1], a)
            if (st >= 0 and a > b) or (st < 0 and a < b):
                self.zero_trip = True      # Color BASIC runs the body once; BASIC09's FOR tests first
            c = canon(s[1])
            self.for_stack = [f for f in self.for_stack if f[0] != c]
            self.for_stack.append((c, b, st, self.cur, self.idx, self.line))
        elif k == "next":
            names = s[1] or [None]
            for nm in names:
                if not self.for_stack:
                    raise CBError("NF")
                if nm is not None:
                    c = canon(nm)
                    while self.for_stack and self.for_stack[-1][0] != c:
                        self.for_stack.pop()
                    if not self.for_stack:
                        raise CBError("NF")
                c, limit, st, cur, idx, line = self.for_stack[-1]
                v = nice(self.vars[c] + st)
                self.vars[c] = v
                if (st >= 0 and v > limit) or (st < 0 and v < limit):
                    self.for_stack.pop()
                    continue
                self.cur, self.idx, self.line = cur, idx, line
                return
        elif k == "goto":
            self.jump(s[1])
        elif k == "gosub":
            self.gosub_stack.append((self.cur, self.idx, self.line, len(self.for_stack)))
            if len(self.gosub_stack) > 100:
                raise CBError("OM")
            self.jump(s[1])
        elif k == "return":
            if not self.gosub_stack:
                raise CBError("RG")
            self.cur, self.idx, self.line, nfor = self.gosub_stack.pop()
            del self.for_stack[nfor:]
        elif k == "on":
            v = self.ev(s[1])
            n = self.byte(v, "ON")
            if 1 <= n <= len(s[3]):
                if s[2] == "GOSUB":
                    self.gosub_stack.append((self.cur, self.idx, self.line, len(self.for_stack)))
                self.jump(s[3][n - 1])
        elif k in ("end", "stop"):
            self.events.append((k,))
            self.ended = k
        elif k == "dim":
            for name, bounds, _ in s[1]:
                if not bounds:
                    self.get(name)
                    continue
                c = canon(name)
                if c in self.arrays:
                    raise CBError("DD", name)
                self.arrays[c] = ([b + 1 for b in bounds], {})
        elif k == "data" or k == "rem":
            pass
        elif k == "read":
            for t in s[1]:
                if self.dp >= len(self.data):
                    raise CBError("OD")
                it = self.data[self.dp]
                self.dp += 1
                want_str = t[1].endswith("$")
                if it[0] == "q":
                    text, quoted = it[1], True
                elif it[0] == "u":
                    text, quoted = it[1], False
                elif it[0] == "n":
                    text, quoted = "".join(it[2]), False
                else:
                    text, quoted = "&H" + it[2], False
                if want_str:
                    self.assign(t, text)
                else:
                    if quoted:
                        raise CBError("SN", "READ numeric from quoted")
                    self.assign(t, val_parse(text))
        elif k == "restore":
            self.dp = 0
        elif k == "input":
            prompt = s[1] or ""
            self.events.append(("prompt", prompt if s[3] else prompt + "? "))
            for t in s[2]:
                if self.in_pos >= len(self.inputs):
                    raise OutOfDomain("input script exhausted")
                raw = str(self.inputs[self.in_pos])
                self.in_pos += 1
                if t[1].endswith("$"):
                    self.assign(t, raw)
                    v = raw
                else:
                    v = val_parse(raw)
                    self.assign(t, v)
                self.events.append(("input", canon(t[1]), v))
        elif k in ("onerr", "onbrk"):
            self.events.append((k, s[1]))
        elif k == "dev":
            from ..gen import devices

            devices.execute(self, s)
        else:
            raise ValueError("statement %r not modelled" % (s,))

    def store(self):
        out = dict(self.vars)
        for c, (dims, cells) in self.arrays.items():
            out["arr_" + c] = {"dims": dims, "cells": {",".join(map(str, k)): v for k, v in cells.items()}}
        return out
