"""BASIC09 reference interpreter (trusted base; modelling decisions in DESIGN.md 3.2).

Executes parsed procedures; pure library procedures are interpreted from the text of
the current ecb.b09, device procedures are stubs that record events.
"""
import math

from .parser import check_blocks, parse_program
from . import static


class B09RuntimeError(Exception):
    def __init__(self, code, msg=""):
        Exception.__init__(self, "error %s %s" % (code, msg))
        self.code = code
        self.msg = msg


class TypeClash(B09RuntimeError):
    def __init__(self, msg):
        B09RuntimeError.__init__(self, 66, "type clash: " + msg)


class StepBudget(Exception):
    pass


class _End(Exception):
    pass


PURE_LIB = {"ecb_int", "ecb_str", "ecb_val", "ecb_hex", "_ecb_hex_digit", "ecb_instr", "ecb_string",
            "ecb_read_filter", "_ecb_min", "_ecb_max"}
RESULT_STUBS = {"ecb_button": "num", "ecb_joystk": "num", "ecb_point": "num", "inkey": "str"}
_IO_KINDS = {"put", "get", "print", "input", "open", "close", "seek", "write", "read", "poke", "shell", "create", "delete", "chd", "kill", "data"}
_PURE_CACHE = {}


def pure_procedures(lib):
    """The library procedures that are interpreted rather than recorded: those named in PURE_LIB plus every procedure of the
    CURRENT library that does no input / output and RUNs only such procedures (so that a helper added to the library
    tomorrow is executed, not stubbed)."""
    key = id(lib)
    if key not in _PURE_CACHE:
        cand = {n for n, e in lib.items() if n not in RESULT_STUBS and not any(st.k in _IO_KINDS for st in e["proc"].body)}
        while True:
            new = {n for n in cand if all(r[0].lower() in cand for r in lib[n]["info"].runs)}
            if new == cand:
                break
            cand = new
        _PURE_CACHE.clear()
        _PURE_CACHE[key] = (lib, cand | (PURE_LIB & set(lib)))
    return _PURE_CACHE[key][1]


def to_int16(v):
    v &= 0xFFFF
    return v - 0x10000 if v & 0x8000 else v


def round_real(x):
    if x != x or x in (float("inf"), float("-inf")):
        raise B09RuntimeError(52, "value out of range")
    r = math.floor(abs(x) + 0.5)
    return int(r if x >= 0 else -r)


def as_integer(v, what="value"):
    if isinstance(v, bool) or isinstance(v, str):
        raise TypeClash("numeric expected for %s, got %r" % (what, v))
    if isinstance(v, float):
        v = round_real(v)
    if v < -32768 or v > 32767:
        raise B09RuntimeError(52, "integer out of range: %r" % (v,))
    return v


def fmt_real(x):
    """BASIC09 spelling of a REAL for STR$/PRINT (assumption A-STR in the evidence files)."""
    if isinstance(x, bool):
        return "TRUE" if x else "FALSE"
    if isinstance(x, int):
        return str(x)
    if x == 0:
        return "0."
    if float(x).is_integer() and abs(x) < 1e9:
        return "%d." % int(x)
    s = repr(float(x))
    if "e" in s or "E" in s:
        m, e = s.lower().split("e")
        return "%sE%+03d" % (m, int(e))
    if s.startswith("0."):
        s = s[1:]
    elif s.startswith("-0."):
        s = "-" + s[2:]
    return s


def parse_val(s):
    t = s.strip()
    if t.startswith("$"):
        try:
            return float(int(t[1:], 16))
        except ValueError:
            raise B09RuntimeError(67, "VAL: illegal argument %r" % s)
    try:
        if not t or t[-1] in "eE" or any(c not in "0123456789.+-eE" for c in t):
            raise ValueError(t)
        return float(t)
    except ValueError:
        raise B09RuntimeError(67, "VAL: illegal argument %r" % s)


class Cell(object):
    __slots__ = ("t", "v", "init", "name")

    def __init__(self, t, name=""):
        self.t = t
        self.name = name
        self.init = False
        k = t[0]
        if k == "STRING":
            self.v = ""
        elif k == "BOOLEAN":
            self.v = False
        elif k == "REAL":
            self.v = 0.0
        else:
            self.v = 0

    def store(self, v):
        k = self.t[0]
        if k == "STRING":
            if not isinstance(v, str):
                raise TypeClash("string expected for %s, got %r" % (self.name, v))
            n = self.t[1] if isinstance(self.t[1], int) else 32
            self.v = v[:n]
        elif k == "BOOLEAN":
            if not isinstance(v, bool):
                raise TypeClash("boolean expected for %s, got %r" % (self.name, v))
            self.v = v
        elif k == "REAL":
            if isinstance(v, (bool, str)):
                raise TypeClash("number expected for %s, got %r" % (self.name, v))
            self.v = float(v)
        elif k == "INTEGER":
            self.v = as_integer(v, self.name)
        elif k == "BYTE":
            self.v = as_integer(v, self.name) & 0xFF
        else:
            raise TypeClash("cannot assign to record %s" % self.name)
        self.init = True


class Arr(object):
    __slots__ = ("t", "dims", "cells", "name")

    def __init__(self, t, dims, name, mk):
        self.t = t
        self.dims = dims
        self.name = name
        n = 1
        for d in dims:
            n *= d
        if n > 200000:
            raise B09RuntimeError(32, "array too large")
        self.cells = [mk(t, "%s[%d]" % (name, i)) for i in range(n)]


class Rec(object):
    __slots__ = ("tname", "fields", "name")

    def __init__(self, tname, fields, name):
        self.tname = tname
        self.fields = fields
        self.name = name


class Frame(object):
    def __init__(self, proc, machine):
        self.proc = proc
        self.vars = {}
        self.types = {}
        self.base = 1
        self.data = []
        self.dp = 0
        self.for_state = {}
        self.gosub = []
        self.on_error = None
        self.err = 0
        self.labels = {}
        self.declared = set()


class Machine(object):
    def __init__(self, user_procs=(), lib_procs=None, inputs=(), tape_start=1, budget=20000, events=None,
                 track_uninit=True):
        self.user = {}
        for p in user_procs:
            self.user[(p.name or "").lower()] = p
        self.lib = lib_procs or {}
        self.inputs = list(inputs)
        self.in_pos = 0
        self.tape = tape_start
        self.budget = budget
        self.steps = 0
        self.events = events if events is not None else []
        self.uninit = []
        self.track_uninit = track_uninit
        self.depth = 0
        self.mismatches = []
        self.rnd = 0

    # ------------------------------------------------------------ storage
    def mk(self, t, name, frame=None):
        if t[0] == "RECORD":
            return self.mk_rec(t[1], name, frame or self._frame)
        return Cell(t, name)

    def mk_rec(self, tname, name, frame):
        decls = frame.types.get(tname)
        if decls is None:
            raise B09RuntimeError(76, "unknown type %s" % tname)
        fields = {}
        for fn, dims, ft in decls:
            ft = ft or ("REAL",)
            if dims:
                fields[fn] = Arr(ft, dims, name + "." + fn, lambda t, n: self.mk(t, n, frame))
            else:
                fields[fn] = self.mk(ft, name + "." + fn, frame)
        return Rec(tname, fields, name)

    def declare(self, frame, name, dims, ty):
        if ty is None:
            ty = ("STRING", 32) if name.endswith("$") else ("REAL",)
        if dims:
            obj = Arr(ty, dims, name, lambda t, n: self.mk(t, n, frame))
        else:
            obj = self.mk(ty, name, frame)
        frame.vars[name] = obj
        frame.declared.add(name)
        return obj

    def lookup(self, frame, name):
        obj = frame.vars.get(name)
        if obj is None:
            obj = self.declare(frame, name, (), None)
            frame.declared.discard(name)
        return obj

    def resolve(self, frame, ref):
        """('ref', name, parts) -> Cell | Arr | Rec"""
        obj = self.lookup(frame, ref[1])
        for p in ref[2]:
            if p[0] == "fld":
                if not isinstance(obj, Rec):
                    raise TypeClash("%s is not a record" % ref[1])
                if p[1] not in obj.fields:
                    raise B09RuntimeError(76, "no field %s in %s" % (p[1], obj.tname))
                obj = obj.fields[p[1]]
            else:
                if not isinstance(obj, Arr):
                    raise B09RuntimeError(76, "%s is not an array (subscripted)" % ref[1])
                if len(p[1]) != len(obj.dims):
                    raise B09RuntimeError(76, "%s: %d subscripts for %d dimensions" % (ref[1], len(p[1]), len(obj.dims)))
                off = 0
                for d, e in zip(obj.dims, p[1]):
                    i = as_integer(self.ev(frame, e), "subscript") - frame.base
                    if i < 0 or i >= d:
                        raise B09RuntimeError(55, "subscript out of range: %s(%d) dim %d" % (ref[1], i + frame.base, d))
                    off = off * d + i
                obj = obj.cells[off]
        return obj

    def read(self, frame, ref):
        name = ref[1]
        if not ref[2] and name == "errnum" and name not in frame.vars:
            return float(frame.err)
        obj = self.resolve(frame, ref)
        if not isinstance(obj, Cell):
            raise TypeClash("%s used as a value but is an array or record" % name)
        if not obj.init and self.track_uninit and "." not in obj.name:
            self.uninit.append(obj.name)
        return obj.v

    # ------------------------------------------------------------ expressions
    def ev(self, frame, e):
        k = e[0]
        if k == "num":
            return e[1]
        if k == "str":
            return e[1]
        if k == "bool":
            return e[1]
        if k == "par":
            return self.ev(frame, e[1])
        if k == "ref":
            return self.read(frame, e)
        if k == "un":
            v = self.ev(frame, e[2])
            op = e[1]
            if op == "NOT":
                if not isinstance(v, bool):
                    raise TypeClash("NOT needs a BOOLEAN, got %r" % (v,))
                return not v
            if isinstance(v, (bool, str)):
                raise TypeClash("unary %s needs a number, got %r" % (op, v))
            if op == "-":
                return to_int16(-v) if isinstance(v, int) else -v
            return v
        if k == "bin":
            return self.binop(e[1], self.ev(frame, e[2]), self.ev(frame, e[3]))
        if k == "call":
            return self.call(frame, e[1], e[2])
        raise B09RuntimeError(0, "bad expression node %r" % (e,))

    def binop(self, op, a, b):
        if op in ("AND", "OR", "XOR"):
            if not isinstance(a, bool) or not isinstance(b, bool):
                raise TypeClash("%s needs BOOLEAN operands, got %r, %r" % (op, a, b))
            if op == "AND":
                return a and b
            if op == "OR":
                return a or b
            return a != b
        if op in ("=", "<>", "<", ">", "<=", ">="):
            ta = "s" if isinstance(a, str) else ("b" if isinstance(a, bool) else "n")
            tb = "s" if isinstance(b, str) else ("b" if isinstance(b, bool) else "n")
            if ta != tb:
                raise TypeClash("comparison of %r with %r" % (a, b))
            if ta == "b" and op not in ("=", "<>"):
                raise TypeClash("ordering of BOOLEANs")
            if op == "=":
                return a == b
            if op == "<>":
                return a != b
            if op == "<":
                return a < b
            if op == ">":
                return a > b
            if op == "<=":
                return a <= b
            return a >= b
        if op == "+" and isinstance(a, str) and isinstance(b, str):
            return a + b
        if isinstance(a, (bool, str)) or isinstance(b, (bool, str)):
            raise TypeClash("arithmetic %s on %r, %r" % (op, a, b))
        both_int = isinstance(a, int) and isinstance(b, int)
        if op == "+":
            return to_int16(a + b) if both_int else float(a) + float(b)
        if op == "-":
            return to_int16(a - b) if both_int else float(a) - float(b)
        if op == "*":
            return to_int16(a * b) if both_int else float(a) * float(b)
        if op == "/":
            if b == 0:
                raise B09RuntimeError(45, "division by zero")
            if both_int:
                q = abs(a) // abs(b)
                return to_int16(q if (a >= 0) == (b >= 0) else -q)
            return float(a) / float(b)
        if op == "^":
            a, b = float(a), float(b)
            try:
                if a == 0 and b < 0:
                    raise B09RuntimeError(45, "0 ^ negative")
                if a < 0 and not b.is_integer():
                    raise B09RuntimeError(52, "negative ^ fraction")
                r = math.pow(a, b)
            except OverflowError:
                raise B09RuntimeError(50, "overflow")
            return r
        raise B09RuntimeError(0, "bad operator %s" % op)

    def num(self, v, what):
        if isinstance(v, (bool, str)):
            raise TypeClash("%s needs a number, got %r" % (what, v))
        return v

    def string(self, v, what):
        if not isinstance(v, str):
            raise TypeClash("%s needs a string, got %r" % (what, v))
        return v

    def call(self, frame, fn, args):
        if fn == "ADDR":
            a = args[0]
            while a[0] == "par":
                a = a[1]
            if a[0] != "ref":
                raise TypeClash("ADDR needs a variable")
            self.resolve(frame, a)
            return 1000 + (sum(ord(c) for c in a[1]) % 20000)
        if fn == "SIZE":
            return 1
        vals = [self.ev(frame, a) for a in args]
        if fn in ("LAND", "LOR", "LXOR"):
            a = as_integer(vals[0], fn)
            b = as_integer(vals[1], fn)
            if fn == "LAND":
                return to_int16(a & b)
            if fn == "LOR":
                return to_int16(a | b)
            return to_int16(a ^ b)
        if fn == "LNOT":
            return to_int16(~as_integer(vals[0], fn))
        if fn == "ABS":
            v = self.num(vals[0], fn)
            return abs(v)
        if fn == "SGN":
            v = self.num(vals[0], fn)
            r = (v > 0) - (v < 0)
            return float(r) if isinstance(v, float) else r
        if fn == "INT":
            v = self.num(vals[0], fn)
            return float(math.trunc(v))
        if fn == "FIX":
            return as_integer(self.num(vals[0], fn), fn)
        if fn == "FLOAT":
            return float(self.num(vals[0], fn))
        if fn in ("SQR", "SQRT"):
            v = float(self.num(vals[0], fn))
            if v < 0:
                raise B09RuntimeError(52, "SQR of negative")
            return math.sqrt(v)
        if fn == "SQ":
            v = self.num(vals[0], fn)
            return v * v
        if fn in ("SIN", "COS", "TAN", "ATN", "EXP", "LOG", "LOG10", "ASN", "ACS"):
            v = float(self.num(vals[0], fn))
            try:
                return {"SIN": math.sin, "COS": math.cos, "TAN": math.tan, "ATN": math.atan, "EXP": math.exp,
                        "LOG": math.log, "LOG10": math.log10, "ASN": math.asin, "ACS": math.acos}[fn](v)
            except (ValueError, OverflowError):
                raise B09RuntimeError(52, "%s domain" % fn)
        if fn == "PI":
            return math.pi
        if fn == "MOD":
            a = as_integer(vals[0], fn)
            b = as_integer(vals[1], fn)
            if b == 0:
                raise B09RuntimeError(45, "MOD by zero")
            return int(math.fmod(a, b))
        if fn == "RND":
            self.rnd += 1
            self.events.append(("rnd", vals[0] if vals else None))
            return float(self.rnd)
        if fn == "PEEK":
            a = as_integer(vals[0], fn) if abs(self.num(vals[0], fn)) <= 32767 else int(vals[0])
            self.events.append(("peek", a))
            return (a * 7 + 3) % 256
        if fn == "ERR":
            return frame.err
        if fn == "POS":
            return 0
        if fn == "EOF":
            return True
        if fn == "LEN":
            return len(self.string(vals[0], fn))
        if fn == "ASC":
            s = self.string(vals[0], fn)
            if not s:
                raise B09RuntimeError(67, "ASC of empty string")
            return ord(s[0])
        if fn == "CHR$":
            v = as_integer(vals[0], fn)
            if v < 0 or v > 255:
                raise B09RuntimeError(67, "CHR$ out of range")
            return chr(v)
        if fn == "VAL":
            return parse_val(self.string(vals[0], fn))
        if fn == "STR$":
            return fmt_real(self.num(vals[0], fn))
        if fn == "LEFT$":
            s = self.string(vals[0], fn)
            n = as_integer(vals[1], fn)
            if n < 0:
                raise B09RuntimeError(67, "LEFT$ negative length")
            return s[:n]
        if fn == "RIGHT$":
            s = self.string(vals[0], fn)
            n = as_integer(vals[1], fn)
            if n < 0:
                raise B09RuntimeError(67, "RIGHT$ negative length")
            return s[len(s) - n:] if 0 < n <= len(s) else (s if n > len(s) else "")
        if fn == "MID$":
            s = self.string(vals[0], fn)
            m = as_integer(vals[1], fn)
            n = as_integer(vals[2], fn)
            if m < 1 or n < 0:
                raise B09RuntimeError(67, "MID$ arguments")
            return s[m - 1:m - 1 + n]
        if fn == "TRIM$":
            return self.string(vals[0], fn).rstrip(" ")
        if fn == "SUBSTR":
            a = self.string(vals[0], fn)
            b = self.string(vals[1], fn)
            return b.find(a) + 1
        if fn == "TAB":
            return ("tab", as_integer(vals[0], fn))
        if fn == "DATE$":
            return "00/01/01 00:00:00"
        raise B09RuntimeError(0, "function %s not modelled" % fn)

    # ------------------------------------------------------------ procedures
    def prepare(self, proc):
        if getattr(proc, "_prepared", False):
            return
        body = proc.body
        if not hasattr(body[0] if body else None, "match") and body:
            pass
        try:
            check_blocks(proc)
        except Exception:
            raise
        loops = []
        for idx, s in enumerate(body):
            if s.k in ("loop", "while", "repeat", "for"):
                loops.append(idx)
            elif s.k in ("endloop", "endwhile", "until", "next"):
                loops.pop()
            elif s.k == "exitif":
                s.loop_end = body[loops[-1]].match
        proc._labels = {}
        for idx, s in enumerate(body):
            if s.label is not None and s.label not in proc._labels:
                proc._labels[s.label] = idx
        proc._prepared = True

    def new_frame(self, proc):
        self.prepare(proc)
        f = Frame(proc, self)
        f.labels = proc._labels
        for s in proc.body:
            if s.k == "type":
                f.types[s.name] = s.decls
            elif s.k == "base":
                f.base = s.n
            elif s.k == "data":
                f.data.extend(s.items)
        return f

    def run_main(self, proc, start_label=None, err=0):
        f = self.new_frame(proc)
        self._declare_all(f, {})
        f.err = err
        pc = 0
        if start_label is not None:
            pc = f.labels[start_label]
        self.exec_frame(f, pc)
        return f

    def _declare_all(self, f, bound):
        self._frame = f
        for s in f.proc.body:
            if s.k == "dim":
                for name, dims, ty in s.decls:
                    if name in f.vars:
                        continue
                    self.declare(f, name, dims, ty)
            elif s.k == "param":
                for name, dims, ty in s.decls:
                    if name in bound:
                        f.vars[name] = bound[name]
                        f.declared.add(name)
                    else:
                        obj = self.declare(f, name, dims, ty)
                        self._mark_init(obj)

    def _mark_init(self, obj):
        if isinstance(obj, Cell):
            obj.init = True
        elif isinstance(obj, Arr):
            for c in obj.cells:
                self._mark_init(c)
        elif isinstance(obj, Rec):
            for c in obj.fields.values():
                self._mark_init(c)

    def call_proc(self, frame, name, args, proc):
        """RUN of an interpreted procedure: bind PARAMs (by reference for variables)."""
        if self.depth > 40:
            raise B09RuntimeError(32, "procedure nesting too deep")
        inf_params = []
        for s in proc.body:
            if s.k == "param":
                inf_params.extend(s.decls)
        if len(args) != len(inf_params):
            self.mismatches.append(("arity", name, len(args), len(inf_params)))
            raise B09RuntimeError(56, "parameter error calling %s: %d arguments for %d parameters"
                                  % (name, len(args), len(inf_params)))
        callee = self.new_frame(proc)
        bound = {}
        copy_back = []
        views = []
        for a, (pname, pdims, pty) in zip(args, inf_params):
            pty = pty or (("STRING", 32) if pname.endswith("$") else ("REAL",))
            obj = None
            b = a
            if b[0] == "ref" and not (b[1] == "errnum" and b[1] not in frame.vars):
                obj = self.resolve(frame, b)
            if obj is not None:
                ok = False
                if isinstance(obj, Cell) and not pdims and pty[0] != "RECORD":
                    ok = obj.t[0] == pty[0]
                elif isinstance(obj, Rec) and pty[0] == "RECORD":
                    ok = True
                elif isinstance(obj, Arr) and pdims:
                    ok = True
                if ok and isinstance(obj, Cell) and pty[0] == "STRING":
                    # a string parameter is the caller's storage seen through the callee's declared size: the callee
                    # reads and writes at most that many characters
                    pn = pty[1] if isinstance(pty[1], int) else 32
                    on = obj.t[1] if isinstance(obj.t[1], int) else 32
                    if pn < on:
                        prev = next((vc for vo, vc, _, _ in views if vo is obj and vc.t == pty), None)
                        if prev is not None:
                            # the same variable passed for two parameters: both names are the same storage
                            bound[pname] = prev
                            continue
                        c = Cell(pty, pname)
                        c.v = obj.v[:pn]
                        c.init = obj.init
                        bound[pname] = c
                        views.append((obj, c, c.v, c.init))
                        continue
                if ok:
                    bound[pname] = obj
                    continue
                if isinstance(obj, Cell) and not pdims and pty[0] != "RECORD":
                    # numeric sub-type or class mismatch: recorded; value converted so that
                    # interpretation can go on (real BASIC09 would reinterpret the bytes)
                    self.mismatches.append(("type", name, pname, pty[0], obj.t[0]))
                    c = Cell(pty, pname)
                    if obj.init:
                        c.store(obj.v)
                    bound[pname] = c
                    copy_back.append((obj, c))
                    continue
                raise B09RuntimeError(56, "parameter error calling %s: %s" % (name, pname))
            v = self.ev(frame, a)
            if pty[0] == "RECORD" or pdims:
                raise B09RuntimeError(56, "parameter error calling %s: %s needs a variable" % (name, pname))
            c = Cell(pty, pname)
            c.store(v)
            bound[pname] = c
        saved = getattr(self, "_frame", None)
        if name in pure_procedures(self.lib):
            self.events.append(("libcall", name, tuple((bound[p[0]].v if getattr(bound[p[0]], "init", False) else None)
                                                         for p in inf_params if isinstance(bound.get(p[0]), Cell))))
        self._declare_all(callee, bound)
        self.depth += 1
        try:
            self.exec_frame(callee, 0)
        finally:
            self.depth -= 1
            self._frame = saved
        for obj, c in copy_back:
            if c.init:
                obj.store(c.v)
        for obj, c, v0, i0 in views:
            if c.v != v0 or (c.init and not i0):
                obj.store(c.v)

    def do_run(self, frame, s):
        name = s.name.lower()
        if name in self.user and self.user[name] is not frame.proc:
            return self.call_proc(frame, name, s.args, self.user[name])
        if name in self.lib and name in pure_procedures(self.lib):
            return self.call_proc(frame, name, s.args, self.lib[name]["proc"])
        if name in self.lib or name in static.SYSTEM_MODULES:
            vals = []
            refs = []
            for a in s.args:
                obj = None
                if a[0] == "ref" and not (a[1] == "errnum" and a[1] not in frame.vars):
                    obj = self.resolve(frame, a)
                if isinstance(obj, Rec):
                    vals.append("<record %s:%s>" % (obj.name, obj.tname))
                    refs.append(obj)
                    if name == "_ecb_start":
                        self._mark_init(obj)
                        # sentinel for the hi-res foreground colour: lets a monitor tell the default from a literal.
                        # Records are raw memory to BASIC09: the callee's TYPE line decides which byte is hfore, so the
                        # sentinel goes to the caller's field at the POSITION the library declares for hfore.
                        callee_fields = [f[0] for f in (self.lib.get(name, {}).get("types", {}).get(obj.tname) or [])]
                        caller_fields = [f[0] for f in (frame.types.get(obj.tname) or [])]
                        target = "hfore"
                        if "hfore" in callee_fields and len(caller_fields) == len(callee_fields):
                            target = caller_fields[callee_fields.index("hfore")]
                        if target in obj.fields and isinstance(obj.fields[target], Cell):
                            obj.fields[target].v = 9
                elif isinstance(obj, Arr):
                    vals.append("<array %s>" % obj.name)
                    refs.append(obj)
                elif isinstance(obj, Cell):
                    vals.append(obj.v)
                    refs.append(obj)
                else:
                    vals.append(self.ev(frame, a))
                    refs.append(None)
            # what a device procedure receives in a string parameter is what its PARAM line has room for
            lp = (self.lib.get(name) or {}).get("params") or []
            if len(lp) == len(vals):
                for i, (pname, pdims, pty) in enumerate(lp):
                    if pty and pty[0] == "STRING" and isinstance(vals[i], str) and not vals[i].startswith("<"):
                        pn = pty[1] if len(pty) > 1 and isinstance(pty[1], int) else 32
                        vals[i] = vals[i][:pn]
            if name == "inkey":
                # OS-9 system module: RUN inkey(char$) or RUN inkey(path, char$)
                ok = len(refs) in (1, 2) and isinstance(refs[-1], Cell) and refs[-1].t[0] == "STRING" and \
                    (len(refs) == 1 or not isinstance(vals[0], str))
                if not ok:
                    self.mismatches.append(("arity", name, len(refs), "1 or 2"))
                    raise B09RuntimeError(56, "parameter error calling inkey with %d arguments" % len(refs))
            if name in self.lib and name not in RESULT_STUBS and not getattr(self, "_in_shadow", False):
                self._shadow_run(frame, name, s)
            kind = RESULT_STUBS.get(name)
            if kind and refs and isinstance(refs[-1], Cell):
                t = self.tape
                self.tape += 1
                out = refs[-1]
                try:
                    out.store(("K%d" % t) if kind == "str" else float(t))
                except TypeClash:
                    self.mismatches.append(("result-type", name, out.name, out.t[0]))
                    out.init = True
                vals[-1] = "<out %s>" % out.name
                self.events.append(("run", name, tuple(vals), t))
            else:
                if name == "_ecb_init_hbuff" and refs and isinstance(refs[0], Cell):
                    refs[0].store(7)
                self.events.append(("run", name, tuple(vals)))
            return
        raise B09RuntimeError(43, "unknown procedure %s" % s.name)

    def _shadow_run(self, frame, name, s):
        """A device procedure is recorded, not executed - but variables are passed by reference, so what it does to its
        parameters matters to the caller.  Its body is run once on COPIES of the arguments (system modules stubbed, events and
        counters restored afterwards); a user variable whose copy comes back changed is reported as clobbered."""
        import copy

        gen = ("pid", "display", "play", "erno", "errnum")
        objs = []
        for a in s.args:
            obj = None
            if a[0] == "ref" and not (a[1] == "errnum" and a[1] not in frame.vars):
                try:
                    obj = self.resolve(frame, a)
                except B09RuntimeError:
                    return
            objs.append(obj)
        watch = [(i, o) for i, o in enumerate(objs) if isinstance(o, Cell) and o.init and not (
            o.name.lower() in gen or o.name.lower().startswith(("tmp_", "joy")))]
        tf = Frame(frame.proc, self)
        tf.types, tf.base = frame.types, frame.base
        args2 = []
        try:
            for i, (a, o) in enumerate(zip(s.args, objs)):
                if o is None:
                    v = self.ev(frame, a)
                    args2.append(("str", v) if isinstance(v, str) else (("bool", v) if isinstance(v, bool) else ("num", v)))
                else:
                    tf.vars["__a%d" % i] = copy.deepcopy(o)
                    args2.append(("ref", "__a%d" % i, ()))
        except (B09RuntimeError, RecursionError):
            return
        saved = (len(self.events), self.steps, len(self.mismatches), len(self.uninit), self.depth, getattr(self, "_frame", None), self.tape,
                 self.rnd, self.budget)
        self._in_shadow = True
        self.budget = self.steps + 4000
        ok = True
        try:
            self.call_proc(tf, name, args2, self.lib[name]["proc"])
        except B09RuntimeError as exc:
            ok = False
            if exc.code == 55:
                # ... except a subscript outside an array of the procedure's own records: no display field decides that
                self.shadow_subscript = getattr(self, "shadow_subscript", []) + [(name, exc.msg)]
        except Exception:  # noqa: BLE001 - whatever stops the shadow run only means: nothing learned
            ok = False
        finally:
            self._in_shadow = False
            del self.events[saved[0]:]
            del self.mismatches[saved[2]:]
            del self.uninit[saved[3]:]
            self.steps, self.depth, self._frame, self.tape, self.rnd, self.budget = saved[1], saved[4], saved[5], saved[6], saved[7], saved[8]
        self.shadow_runs = getattr(self, "shadow_runs", 0) + 1
        if not ok:
            # (stopped early - typically a division by a display field that only the real start-up code fills in; what the
            # procedure had written to its parameters by then it would have written all the same)
            self.shadow_failed = getattr(self, "shadow_failed", 0) + 1
        for i, o in watch:
            c = tf.vars.get("__a%d" % i)
            if isinstance(c, Cell) and (c.v != o.v):
                self.mismatches.append(("clobbered-argument", name, o.name, o.v, c.v))

    # ------------------------------------------------------------ statements
    def goto(self, frame, label):
        if label not in frame.labels:
            raise B09RuntimeError(43, "undefined line %s" % label)
        return frame.labels[label]

    def exec_frame(self, f, pc):
        body = f.proc.body
        n = len(body)
        while pc < n:
            s = body[pc]
            self.steps += 1
            if self.steps > self.budget:
                raise StepBudget()
            try:
                self._frame = f
                pc = self.step(f, s, pc)
            except _End:
                if self.depth == 0:
                    return
                return
            except B09RuntimeError as exc:
                if f.on_error is not None:
                    f.err = exc.code
                    pc = self.goto(f, f.on_error)
                    continue
                raise

    def step(self, f, s, pc):
        k = s.k
        if k == "assign":
            v = self.ev(f, s.e)
            obj = self.resolve(f, s.lv)
            if isinstance(obj, Cell):
                if isinstance(v, tuple):
                    raise TypeClash("TAB outside PRINT")
                obj.store(v)
            elif isinstance(obj, Rec) and s.e[0] == "ref":
                src = self.resolve(f, s.e)
                if not isinstance(src, Rec) or src.tname != obj.tname:
                    raise TypeClash("record assignment")
                self._copy_rec(src, obj)
            else:
                raise TypeClash("assignment to array or record %s" % s.lv[1])
            return pc + 1
        if k == "if":
            c = self.ev(f, s.c)
            if not isinstance(c, bool):
                raise TypeClash("IF needs a BOOLEAN, got %r" % (c,))
            if c:
                return pc + 1
            return (s.else_idx + 1) if s.else_idx is not None else s.match + 1
        if k == "else":
            return f.proc.body[s.match].match + 1
        if k in ("endif", "loop", "repeat", "rem", "dim", "param", "type", "base", "data", "tron", "troff",
                 "deg", "rad", "pause", "procedure"):
            return pc + 1
        if k == "ifgoto":
            c = self.ev(f, s.c)
            if not isinstance(c, bool):
                raise TypeClash("IF needs a BOOLEAN, got %r" % (c,))
            return self.goto(f, s.target) if c else pc + 1
        if k == "endloop":
            return s.match + 1
        if k == "exitif":
            c = self.ev(f, s.c)
            if not isinstance(c, bool):
                raise TypeClash("EXITIF needs a BOOLEAN, got %r" % (c,))
            return pc + 1 if c else s.match + 1
        if k == "endexit":
            return f.proc.body[s.match].loop_end + 1
        if k == "while":
            c = self.ev(f, s.c)
            if not isinstance(c, bool):
                raise TypeClash("WHILE needs a BOOLEAN")
            return pc + 1 if c else s.match + 1
        if k == "endwhile":
            return s.match
        if k == "until":
            c = self.ev(f, s.c)
            if not isinstance(c, bool):
                raise TypeClash("UNTIL needs a BOOLEAN")
            return pc + 1 if c else s.match + 1
        if k == "for":
            a = self.num(self.ev(f, s.a), "FOR start")
            b = self.num(self.ev(f, s.b), "FOR limit")
            st = self.num(self.ev(f, s.s), "FOR step") if s.s is not None else 1
            var = self.lookup(f, s.var)
            if not isinstance(var, Cell) or var.t[0] not in ("REAL", "INTEGER", "BYTE"):
                raise TypeClash("FOR variable %s" % s.var)
            var.store(a)
            f.for_state[pc] = (b, st)
            ok = var.v <= b if st >= 0 else var.v >= b
            if getattr(self, "hyp_for_body_once", False):
                ok = True      # diagnosis only: emulate Color BASIC's bottom-tested FOR
            return pc + 1 if ok else s.match + 1
        if k == "next":
            st = f.for_state.get(s.match)
            if st is None:
                raise B09RuntimeError(0, "NEXT without active FOR (jump into loop body)")
            var = self.lookup(f, s.var)
            var.store(var.v + st[1])
            ok = var.v <= st[0] if st[1] >= 0 else var.v >= st[0]
            return s.match + 1 if ok else pc + 1
        if k == "goto":
            return self.goto(f, s.target)
        if k == "gosub":
            if len(f.gosub) > 200:
                raise B09RuntimeError(53, "GOSUB nesting")
            f.gosub.append(pc + 1)
            return self.goto(f, s.target)
        if k == "return":
            if not f.gosub:
                raise B09RuntimeError(54, "RETURN without GOSUB")
            return f.gosub.pop()
        if k in ("ongoto", "ongosub"):
            v = as_integer(self.num(self.ev(f, s.e), "ON selector"), "ON selector")
            if 1 <= v <= len(s.targets):
                if k == "ongosub":
                    f.gosub.append(pc + 1)
                return self.goto(f, s.targets[v - 1])
            return pc + 1
        if k == "onerror":
            f.on_error = s.target
            return pc + 1
        if k == "print":
            toks = []
            if s.path is not None:
                self.ev(f, s.path)
            for it in s.items:
                if it[0] == "sep":
                    if it[1] == ",":
                        toks.append(("zone",))
                else:
                    v = self.ev(f, it[1])
                    if isinstance(v, tuple):
                        toks.append(v)
                    elif isinstance(v, str):
                        toks.append(("s", v))
                    else:
                        toks.append(("s", fmt_real(v)))
            if not s.items or s.items[-1][0] != "sep":
                toks.append(("nl",))
            self.events.append(("print" if s.path is None else "printpath",) + tuple(toks))
            return pc + 1
        if k == "input":
            self.events.append(("prompt", s.prompt if s.prompt is not None else "? "))
            for t in s.targets:
                obj = self.resolve(f, t)
                if not isinstance(obj, Cell):
                    raise TypeClash("INPUT target")
                if self.in_pos >= len(self.inputs):
                    raise B09RuntimeError(211, "end of input")
                raw = self.inputs[self.in_pos]
                self.in_pos += 1
                if obj.t[0] == "STRING":
                    obj.store(str(raw))
                else:
                    obj.store(parse_val(str(raw)))
                self.events.append(("input", obj.name, obj.v))
            return pc + 1
        if k == "read":
            for t in s.targets:
                obj = self.resolve(f, t)
                if not isinstance(obj, Cell):
                    raise TypeClash("READ target")
                if f.dp >= len(f.data):
                    raise B09RuntimeError(79, "out of DATA")
                v = self.ev(f, f.data[f.dp])
                f.dp += 1
                if (obj.t[0] == "STRING") != isinstance(v, str):
                    raise B09RuntimeError(70, "READ: datum %r does not match type of %s" % (v, obj.name))
                obj.store(v)
            return pc + 1
        if k == "restore":
            f.dp = 0
            return pc + 1
        if k == "run":
            self.do_run(f, s)
            return pc + 1
        if k == "poke":
            a = self.num(self.ev(f, s.a), "POKE address")
            v = self.num(self.ev(f, s.v), "POKE value")
            self.events.append(("poke", float(a), float(v)))
            return pc + 1
        if k == "error":
            raise B09RuntimeError(as_integer(self.ev(f, s.e)), "ERROR statement")
        if k in ("end", "stop", "bye"):
            if s.k == "end" and s.e is not None:
                self.ev(f, s.e)
            self.events.append((k,))
            raise _End()
        if k == "open":
            obj = self.resolve(f, s.var)
            obj.store(5)
            self.events.append(("dev", "open", self.ev(f, s.e)))
            return pc + 1
        if k in ("close", "put", "get", "seek", "write", "shell", "chd", "chx", "kill", "delete", "chain"):
            self.events.append(("dev", k))
            return pc + 1
        raise B09RuntimeError(0, "statement %s not modelled" % k)

    def _copy_rec(self, src, dst):
        for fn, c in src.fields.items():
            d = dst.fields[fn]
            if isinstance(c, Cell):
                d.v, d.init = c.v, c.init
            elif isinstance(c, Arr):
                for a, b in zip(c.cells, d.cells):
                    b.v, b.init = a.v, a.init


_LIB_CACHE = {}


def load_library(path, storage=32):
    """Parse the bundled library the way the tool ships it for a given string-storage setting: the STRING<<>> tag
    stands for the configured size (plain STRING, 32 bytes, by default)."""
    import os
    import re

    st = os.stat(path)
    key = (path, st.st_mtime_ns, st.st_size, storage)
    if key not in _LIB_CACHE:
        text = open(path).read()
        text = re.sub(r"(?i)(:\s*string)<<>>", lambda m: m.group(1) + ("[%d]" % storage if storage != 32 else ""), text)
        procs = parse_program(text)
        for k in [k for k in _LIB_CACHE if k[:3] != key[:3]]:
            del _LIB_CACHE[k]
        _LIB_CACHE[key] = (static.interface_table(procs), text)
    return _LIB_CACHE[key]


def dump_store(frame):
    """Final variable store as plain data: {name: value | [values...]}"""
    out = {}
    for name, obj in frame.vars.items():
        if isinstance(obj, Cell):
            out[name] = obj.v
        elif isinstance(obj, Arr):
            out[name] = {"dims": list(obj.dims), "v": [c.v if isinstance(c, Cell) else None for c in obj.cells]}
    return out
