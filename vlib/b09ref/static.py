"""Static analysis over parsed BASIC09 procedures: labels, jumps, declarations, RUN sites,
identifier uses, coarse expression classes."""
from .parser import STRING_FUNCS, BOOL_FUNCS

SYSTEM_MODULES = {"gfx2", "gfx", "syscall", "inkey"}


def sub_exprs(e):
    k = e[0]
    if k == "ref":
        for p in e[2]:
            if p[0] == "idx":
                for a in p[1]:
                    yield a
    elif k == "call":
        for a in e[2]:
            yield a
    elif k == "un":
        yield e[2]
    elif k == "bin":
        yield e[2]
        yield e[3]
    elif k == "par":
        yield e[1]


def walk(e, fn):
    fn(e)
    for s in sub_exprs(e):
        walk(s, fn)


def stmt_exprs(s):
    """All top-level expressions of a statement, as (role, expr)."""
    k = s.k
    if k == "assign":
        yield ("lv", s.lv)
        yield ("e", s.e)
    elif k in ("if", "ifgoto", "exitif", "while", "until"):
        yield ("c", s.c)
    elif k == "for":
        yield ("lv", ("ref", s.var, ()))
        yield ("e", s.a)
        yield ("e", s.b)
        if s.s is not None:
            yield ("e", s.s)
    elif k == "next":
        yield ("lv", ("ref", s.var, ()))
    elif k in ("ongoto", "ongosub", "error", "shell", "chd", "chx", "kill", "delete", "chain"):
        yield ("e", s.e)
    elif k == "end":
        if s.e is not None:
            yield ("e", s.e)
    elif k == "print":
        if s.path is not None:
            yield ("e", s.path)
        if s.using is not None:
            yield ("e", s.using)
        for it in s.items:
            if it[0] == "e":
                yield ("e", it[1])
    elif k in ("input", "read"):
        if s.path is not None:
            yield ("e", s.path)
        for t in s.targets:
            yield ("lv", t)
    elif k == "data":
        for it in s.items:
            yield ("e", it)
    elif k == "run":
        for a in s.args:
            yield ("arg", a)
    elif k == "poke":
        yield ("e", s.a)
        yield ("e", s.v)
    elif k in ("open",):
        yield ("lv", s.var)
        yield ("e", s.e)
    elif k == "close":
        for p in s.paths:
            yield ("e", p)
    elif k in ("put", "get"):
        yield ("e", s.path)
        yield ("lv", s.var)
    elif k == "seek":
        yield ("e", s.path)
        yield ("e", s.e)
    elif k == "write":
        yield ("e", s.path)
        for it in s.items:
            yield ("e", it)


class Info(object):
    pass


def analyse(proc):
    inf = Info()
    inf.labels = {}
    inf.jumps = []
    inf.decls = []
    inf.types = {}
    inf.params = []
    inf.runs = []
    inf.uses = []   # (name, stmt idx, nsubscripts or None, first field or None)
    inf.base = 1
    for idx, s in enumerate(proc.body):
        if s.label is not None:
            inf.labels.setdefault(s.label, []).append(idx)
        k = s.k
        if k in ("goto", "gosub", "ifgoto", "onerror", "restore"):
            if s.target is not None:
                inf.jumps.append((k, s.target, idx))
        elif k in ("ongoto", "ongosub"):
            for t in s.targets:
                inf.jumps.append((k, t, idx))
        elif k == "dim":
            for d in s.decls:
                inf.decls.append((d[0], d[1], d[2], "dim", idx))
        elif k == "param":
            for d in s.decls:
                inf.decls.append((d[0], d[1], d[2], "param", idx))
                inf.params.append(d)
        elif k == "type":
            inf.types[s.name] = list(s.decls)
        elif k == "base":
            inf.base = s.n
        elif k == "run":
            inf.runs.append((s.name, s.args, idx))

        def note(e, idx=idx):
            if e[0] == "ref":
                nsub = None
                fld = None
                for p in e[2]:
                    if p[0] == "idx" and nsub is None and fld is None:
                        nsub = len(p[1])
                    if p[0] == "fld" and fld is None:
                        fld = p[1]
                inf.uses.append((e[1], idx, nsub, fld))

        for _, e in stmt_exprs(s):
            walk(e, note)
    return inf


def declared_types(inf):
    """name -> (dims, type) for DIM/PARAM declarations (last one wins; duplicates are
    reported separately by the callers that care)."""
    out = {}
    for name, dims, ty, kind, idx in inf.decls:
        out[name] = (dims, ty)
    return out


def expr_class(e, decl, types):
    """Coarse class of an expression: 'string' | 'numeric' | 'boolean' | ('record', t) | 'unknown'."""
    k = e[0]
    if k == "num":
        return "numeric"
    if k == "str":
        return "string"
    if k == "bool":
        return "boolean"
    if k == "par":
        return expr_class(e[1], decl, types)
    if k == "un":
        if e[1] == "NOT":
            return "boolean"
        return "numeric"
    if k == "bin":
        op = e[1]
        if op in ("AND", "OR", "XOR", "=", "<>", "<", ">", "<=", ">="):
            return "boolean"
        if op == "+":
            a = expr_class(e[2], decl, types)
            b = expr_class(e[3], decl, types)
            if a == "string" or b == "string":
                return "string"
            return "numeric"
        return "numeric"
    if k == "call":
        if e[1] in STRING_FUNCS:
            return "string"
        if e[1] in BOOL_FUNCS:
            return "boolean"
        return "numeric"
    if k == "ref":
        name = e[1]
        ty = None
        if name in decl:
            ty = decl[name][1]
        cur = ty
        for p in e[2]:
            if p[0] == "fld":
                if cur is not None and cur[0] == "RECORD" and cur[1] in types:
                    nt = None
                    for fn, fd, ft in types[cur[1]]:
                        if fn == p[1]:
                            nt = ft
                    cur = nt
                else:
                    cur = None
                    return "unknown"
        if cur is None:
            if name in decl and decl[name][1] is None:
                # declared without a type: REAL, or STRING when the name ends in $
                return "string" if name.endswith("$") else "numeric"
            if name not in decl:
                return "string" if name.endswith("$") else "numeric"
            return "unknown"
        if cur[0] == "STRING":
            return "string"
        if cur[0] == "BOOLEAN":
            return "boolean"
        if cur[0] == "RECORD":
            return ("record", cur[1])
        return "numeric"
    return "unknown"


def type_class(ty, name=""):
    if ty is None:
        return "string" if name.endswith("$") else "numeric"
    if ty[0] == "STRING":
        return "string"
    if ty[0] == "BOOLEAN":
        return "boolean"
    if ty[0] == "RECORD":
        return ("record", ty[1])
    return "numeric"


def interface_table(procs):
    """{proc name lower: {'params': [(name, dims, type)], 'types': {...}}}"""
    out = {}
    for p in procs:
        if p.name is None:
            continue
        inf = analyse(p)
        out[p.name.lower()] = {"params": list(inf.params), "types": inf.types, "info": inf, "proc": p}
    return out
