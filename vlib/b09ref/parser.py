"""BASIC09 statement parser + block-structure validation (Appendix E of DESIGN.md).

Expressions are tuples:
   ('num', value, is_real) ('str', s) ('bool', b)
   ('ref', name_lower, parts)   parts: tuple of ('idx', (e...)) | ('fld', name_lower)
   ('call', NAME_UPPER, (e...))
   ('un', op, e)  ('bin', op, a, b)  ('par', e)
Statements are St objects with .k (kind) and kind-specific attributes.
"""
from .lexer import B09SyntaxError, lex_line

BUILTINS = {
    "ADDR", "SIZE", "POS", "ERR", "MOD", "RND", "SUBSTR", "PI", "SIN", "COS", "TAN", "ASN", "ACS",
    "ATN", "EXP", "LOG", "LOG10", "SGN", "ABS", "SQRT", "SQR", "INT", "FIX", "FLOAT", "SQ", "PEEK",
    "LNOT", "VAL", "LEN", "ASC", "LAND", "LOR", "LXOR", "TRUE", "FALSE", "EOF", "TRIM$", "MID$",
    "LEFT$", "RIGHT$", "CHR$", "STR$", "DATE$", "TAB",
}
# arity (min, max) of the built-in functions
ARITY = {
    "ADDR": (1, 1), "SIZE": (1, 1), "POS": (0, 0), "ERR": (0, 0), "MOD": (2, 2), "RND": (1, 1),
    "SUBSTR": (2, 2), "PI": (0, 0), "SIN": (1, 1), "COS": (1, 1), "TAN": (1, 1), "ASN": (1, 1),
    "ACS": (1, 1), "ATN": (1, 1), "EXP": (1, 1), "LOG": (1, 1), "LOG10": (1, 1), "SGN": (1, 1),
    "ABS": (1, 1), "SQRT": (1, 1), "SQR": (1, 1), "INT": (1, 1), "FIX": (1, 1), "FLOAT": (1, 1),
    "SQ": (1, 1), "PEEK": (1, 1), "LNOT": (1, 1), "VAL": (1, 1), "LEN": (1, 1), "ASC": (1, 1),
    "LAND": (2, 2), "LOR": (2, 2), "LXOR": (2, 2), "TRUE": (0, 0), "FALSE": (0, 0), "EOF": (1, 1),
    "TRIM$": (1, 1), "MID$": (3, 3), "LEFT$": (2, 2), "RIGHT$": (2, 2), "CHR$": (1, 1),
    "STR$": (1, 1), "DATE$": (0, 0), "TAB": (1, 1),
}
STRING_FUNCS = {"TRIM$", "MID$", "LEFT$", "RIGHT$", "CHR$", "STR$", "DATE$", "TAB"}
BOOL_FUNCS = {"TRUE", "FALSE", "EOF"}

RESERVED = {
    "PARAM", "TYPE", "DIM", "DATA", "STOP", "BYE", "TRON", "TROFF", "PAUSE", "DEG", "RAD", "RETURN",
    "LET", "POKE", "IF", "ELSE", "ENDIF", "FOR", "NEXT", "WHILE", "ENDWHILE", "REPEAT", "UNTIL",
    "LOOP", "ENDLOOP", "EXITIF", "ENDEXIT", "ON", "ERROR", "GOTO", "GOSUB", "RUN", "KILL", "INPUT",
    "PRINT", "CHD", "CHX", "CREATE", "OPEN", "SEEK", "READ", "WRITE", "GET", "PUT", "CLOSE",
    "RESTORE", "DELETE", "CHAIN", "SHELL", "BASE", "REM", "END",
    "BYTE", "INTEGER", "REAL", "BOOLEAN", "STRING", "THEN", "TO", "STEP", "DO", "USING", "PROCEDURE",
    "UPDATE", "EXEC", "DIR", "NOT", "AND", "OR", "XOR",
} | BUILTINS

RELOPS = ("=", "<>", "<", ">", "<=", ">=", "=<", "=>")


class St(object):
    def __init__(self, k, line, **kw):
        self.k = k
        self.line = line
        self.label = None
        self.__dict__.update(kw)

    def __repr__(self):
        d = dict(self.__dict__)
        return "St(%s)" % d


class _P(object):
    """Token cursor over one statement list of one line."""

    def __init__(self, toks, lineno, text):
        self.t = toks
        self.i = 0
        self.lineno = lineno
        self.text = text

    def err(self, msg):
        col = self.t[self.i][2] if self.i < len(self.t) else len(self.text)
        raise B09SyntaxError(msg, self.lineno, col, self.text)

    def peek(self, k=0):
        j = self.i + k
        return self.t[j] if j < len(self.t) else ("eol", None, len(self.text))

    def at_end(self):
        return self.i >= len(self.t) or (self.t[self.i][0] == "op" and self.t[self.i][1] == "\\")

    def is_op(self, v, k=0):
        t = self.peek(k)
        return t[0] == "op" and t[1] == v

    def is_kw(self, v, k=0):
        t = self.peek(k)
        return t[0] == "id" and t[1].upper() == v

    def eat_op(self, v):
        if self.is_op(v):
            self.i += 1
            return True
        return False

    def eat_kw(self, v):
        if self.is_kw(v):
            self.i += 1
            return True
        return False

    def need_op(self, v):
        if not self.eat_op(v):
            self.err("expected %r" % v)

    def need_kw(self, v):
        if not self.eat_kw(v):
            self.err("expected %s" % v)

    def ident(self, what="identifier"):
        t = self.peek()
        if t[0] != "id":
            self.err("expected %s" % what)
        self.i += 1
        return t[1]

    def integer(self, what="integer"):
        t = self.peek()
        if t[0] == "num" and not t[1][1]:
            self.i += 1
            return t[1][0]
        if t[0] == "num" and t[1][1] and float(t[1][0]).is_integer() and "." not in t[1][2] and "e" not in t[1][2].lower():
            self.i += 1
            return int(t[1][0])
        if t[0] == "hex":
            self.i += 1
            return t[1]
        self.err("expected %s" % what)

    # ---------------- expressions
    def expr(self):
        return self.p_or()

    def p_or(self):
        a = self.p_and()
        while self.is_kw("OR") or self.is_kw("XOR"):
            op = self.peek()[1].upper()
            self.i += 1
            a = ("bin", op, a, self.p_and())
        return a

    def p_and(self):
        a = self.p_rel()
        while self.is_kw("AND"):
            self.i += 1
            a = ("bin", "AND", a, self.p_rel())
        return a

    def p_rel(self):
        a = self.p_sum()
        t = self.peek()
        if t[0] == "op" and t[1] in RELOPS:
            self.i += 1
            op = {"=<": "<=", "=>": ">="}.get(t[1], t[1])
            a = ("bin", op, a, self.p_sum())
        return a

    def p_sum(self):
        a = self.p_term()
        while self.is_op("+") or self.is_op("-"):
            op = self.peek()[1]
            self.i += 1
            a = ("bin", op, a, self.p_term())
        return a

    def p_term(self):
        a = self.p_pow()
        while self.is_op("*") or self.is_op("/"):
            op = self.peek()[1]
            self.i += 1
            a = ("bin", op, a, self.p_pow())
        return a

    def p_pow(self):
        a = self.p_unary()
        while self.is_op("^") or self.is_op("**"):
            self.i += 1
            a = ("bin", "^", a, self.p_unary())
        return a

    def p_unary(self):
        if self.is_op("-"):
            self.i += 1
            return ("un", "-", self.p_unary())
        if self.is_op("+"):
            self.i += 1
            return ("un", "+", self.p_unary())
        if self.is_kw("NOT"):
            self.i += 1
            return ("un", "NOT", self.p_unary())
        return self.p_primary()

    def p_primary(self):
        t = self.peek()
        if t[0] == "num":
            self.i += 1
            return ("num", t[1][0], t[1][1])
        if t[0] == "hex":
            self.i += 1
            return ("num", t[1] if t[1] < 0x8000 else t[1] - 0x10000, False)
        if t[0] == "str":
            self.i += 1
            return ("str", t[1])
        if t[0] == "op" and t[1] == "(":
            self.i += 1
            e = self.expr()
            self.need_op(")")
            return ("par", e)
        if t[0] == "id":
            up = t[1].upper()
            if up in BUILTINS:
                self.i += 1
                args = ()
                if self.is_op("("):
                    args = self.arglist()
                lo, hi = ARITY[up]
                if not (lo <= len(args) <= hi):
                    if not (up == "RND" and len(args) == 0):
                        self.err("%s takes %d..%d arguments, got %d" % (up, lo, hi, len(args)))
                if up == "TRUE":
                    return ("bool", True)
                if up == "FALSE":
                    return ("bool", False)
                return ("call", up, args)
            if up in RESERVED:
                self.err("unexpected keyword %s in expression" % up)
            return self.ref()
        self.err("expected expression")

    def arglist(self):
        self.need_op("(")
        args = []
        if self.is_op("#"):
            self.i += 1
        args.append(self.expr())
        while self.eat_op(","):
            args.append(self.expr())
        self.need_op(")")
        return tuple(args)

    def ref(self):
        name = self.ident().lower()
        if name.upper() in RESERVED:
            self.i -= 1
            self.err("reserved word %s used as a name" % name.upper())
        parts = []
        while True:
            if self.is_op("("):
                parts.append(("idx", self.arglist()))
            elif self.is_op(".") and self.peek(1)[0] == "id":
                self.i += 1
                parts.append(("fld", self.ident().lower()))
            else:
                break
        return ("ref", name, tuple(parts))

    # ---------------- declarations
    def typ(self):
        t = self.ident("type name")
        up = t.upper()
        if up == "STRING":
            if self.eat_op("["):
                n = self.integer("string length")
                self.need_op("]")
                return ("STRING", n)
            if self.is_op("<") and self.is_op("<>", 1) and self.is_op(">", 2):
                # the library's size tag is not BASIC09: it must have been replaced before anything is emitted
                raise B09SyntaxError("unreplaced size tag STRING<<>>", self.lineno, None, self.text)
            return ("STRING", 32)
        if up in ("BYTE", "INTEGER", "REAL", "BOOLEAN"):
            return (up,)
        return ("RECORD", t.lower())

    def decls(self):
        """name[(dims)] {, name[(dims)]} [: type] { ; ... }  ->  [(name, dims tuple, type or None)]"""
        out = []
        while True:
            names = []
            while True:
                nm = self.ident("name in declaration").lower()
                if nm.upper() in RESERVED:
                    self.i -= 1
                    self.err("reserved word %s declared as a name" % nm.upper())
                dims = ()
                if self.eat_op("("):
                    d = [self.integer("array size")]
                    while self.eat_op(","):
                        d.append(self.integer("array size"))
                    self.need_op(")")
                    dims = tuple(d)
                names.append((nm, dims))
                if not self.eat_op(","):
                    break
            ty = None
            if self.eat_op(":"):
                ty = self.typ()
            for nm, dims in names:
                out.append((nm, dims, ty))
            if not self.eat_op(";"):
                break
        return out

    # ---------------- statements
    def statement(self):
        t = self.peek()
        if t[0] != "id":
            self.err("expected a statement")
        up = t[1].upper()
        ln = self.lineno
        m = getattr(self, "s_" + up, None)
        if m is not None and up in RESERVED:
            self.i += 1
            return m(ln)
        if up in RESERVED:
            self.err("unexpected keyword %s at start of statement" % up)
        return self.assign(ln, False)

    def assign(self, ln, let):
        lv = self.ref()
        if not (self.eat_op(":=") or self.eat_op("=")):
            self.err("expected := or = in assignment")
        return St("assign", ln, lv=lv, e=self.expr(), let=let)

    def s_LET(self, ln):
        return self.assign(ln, True)

    def s_PROCEDURE(self, ln):
        # the name is whatever follows on the line (the tool admits [A-Za-z0-9_-]+)
        kw = self.t[self.i - 1]
        name = self.text[kw[2] + len(kw[1]):].strip()
        if not name or " " in name:
            self.err("expected procedure name")
        self.i = len(self.t)
        return St("procedure", ln, name=name)

    def s_PARAM(self, ln):
        return St("param", ln, decls=self.decls())

    def s_DIM(self, ln):
        return St("dim", ln, decls=self.decls())

    def s_TYPE(self, ln):
        name = self.ident("type name").lower()
        self.need_op("=")
        return St("type", ln, name=name, decls=self.decls())

    def s_BASE(self, ln):
        return St("base", ln, n=self.integer("0 or 1"))

    def s_IF(self, ln):
        c = self.expr()
        self.need_kw("THEN")
        t = self.peek()
        if t[0] == "num" and not t[1][1] and (self.peek(1)[0] == "eol" or self.is_op("\\", 1)):
            self.i += 1
            return St("ifgoto", ln, c=c, target=t[1][0])
        return St("if", ln, c=c)

    def s_ELSE(self, ln):
        return St("else", ln)

    def s_ENDIF(self, ln):
        return St("endif", ln)

    def s_LOOP(self, ln):
        return St("loop", ln)

    def s_ENDLOOP(self, ln):
        return St("endloop", ln)

    def s_EXITIF(self, ln):
        c = self.expr()
        self.need_kw("THEN")
        return St("exitif", ln, c=c)

    def s_ENDEXIT(self, ln):
        return St("endexit", ln)

    def s_WHILE(self, ln):
        c = self.expr()
        self.need_kw("DO")
        return St("while", ln, c=c)

    def s_ENDWHILE(self, ln):
        return St("endwhile", ln)

    def s_REPEAT(self, ln):
        return St("repeat", ln)

    def s_UNTIL(self, ln):
        return St("until", ln, c=self.expr())

    def s_FOR(self, ln):
        v = self.ref()
        if v[2]:
            self.err("FOR variable must be a simple variable")
        self.need_op("=")
        a = self.expr()
        self.need_kw("TO")
        b = self.expr()
        s = None
        if self.eat_kw("STEP"):
            s = self.expr()
        return St("for", ln, var=v[1], a=a, b=b, s=s)

    def s_NEXT(self, ln):
        v = self.ident("NEXT variable").lower()
        if v.upper() in RESERVED:
            self.err("NEXT needs a variable")
        return St("next", ln, var=v)

    def s_GOTO(self, ln):
        return St("goto", ln, target=self.integer("line number"))

    def s_GOSUB(self, ln):
        return St("gosub", ln, target=self.integer("line number"))

    def s_RETURN(self, ln):
        return St("return", ln)

    def s_ON(self, ln):
        if self.eat_kw("ERROR"):
            if self.eat_kw("GOTO"):
                return St("onerror", ln, target=self.integer("line number"))
            return St("onerror", ln, target=None)
        e = self.expr()
        if self.eat_kw("GOTO"):
            kind = "ongoto"
        elif self.eat_kw("GOSUB"):
            kind = "ongosub"
        else:
            self.err("expected GOTO or GOSUB")
        targets = [self.integer("line number")]
        while self.eat_op(","):
            targets.append(self.integer("line number"))
        return St(kind, ln, e=e, targets=targets)

    def _path(self):
        if self.eat_op("#"):
            e = self.p_sum()
            return e
        return None

    def s_PRINT(self, ln):
        path = self._path()
        if path is not None and not self.at_end():
            self.need_op(",")
        using = None
        if self.eat_kw("USING"):
            using = self.expr()
            self.need_op(",")
        items = []  # ('e', expr) | ('sep', ';' or ',')
        last_was_expr = False
        while not self.at_end():
            if self.is_op(";") or self.is_op(","):
                items.append(("sep", self.peek()[1]))
                self.i += 1
                last_was_expr = False
            else:
                if last_was_expr:
                    self.err("expected ; or , between PRINT items")
                items.append(("e", self.expr()))
                last_was_expr = True
        return St("print", ln, path=path, using=using, items=items)

    def s_INPUT(self, ln):
        path = self._path()
        if path is not None:
            self.need_op(",")
        prompt = None
        if self.peek()[0] == "str":
            prompt = self.peek()[1]
            self.i += 1
            if not (self.eat_op(",") or self.eat_op(";")):
                self.err("expected , after INPUT prompt")
        targets = [self.ref()]
        while self.eat_op(","):
            targets.append(self.ref())
        return St("input", ln, path=path, prompt=prompt, targets=targets)

    def s_READ(self, ln):
        path = self._path()
        if path is not None:
            self.need_op(",")
        targets = [self.ref()]
        while self.eat_op(","):
            targets.append(self.ref())
        return St("read", ln, path=path, targets=targets)

    def s_DATA(self, ln):
        items = [self.expr()]
        while self.eat_op(","):
            items.append(self.expr())
        return St("data", ln, items=items)

    def s_RESTORE(self, ln):
        target = None
        if not self.at_end():
            target = self.integer("line number")
        return St("restore", ln, target=target)

    def s_RUN(self, ln):
        name = self.ident("procedure name")
        args = ()
        if self.is_op("("):
            args = self.arglist()
        return St("run", ln, name=name, args=args)

    def s_POKE(self, ln):
        a = self.expr()
        self.need_op(",")
        return St("poke", ln, a=a, v=self.expr())

    def s_ERROR(self, ln):
        return St("error", ln, e=self.expr())

    def s_OPEN(self, ln):
        self.need_op("#")
        v = self.ref()
        self.need_op(",")
        e = self.expr()
        modes = []
        if self.eat_op(":"):
            modes.append(self.ident("access mode"))
            while self.eat_op("+"):
                modes.append(self.ident("access mode"))
        return St("open", ln, var=v, e=e, modes=modes)

    s_CREATE = s_OPEN

    def s_CLOSE(self, ln):
        paths = []
        self.need_op("#")
        paths.append(self.p_sum())
        while self.eat_op(","):
            self.need_op("#")
            paths.append(self.p_sum())
        return St("close", ln, paths=paths)

    def s_PUT(self, ln):
        self.need_op("#")
        p = self.p_sum()
        self.need_op(",")
        return St("put", ln, path=p, var=self.ref())

    def s_GET(self, ln):
        self.need_op("#")
        p = self.p_sum()
        self.need_op(",")
        return St("get", ln, path=p, var=self.ref())

    def s_SEEK(self, ln):
        self.need_op("#")
        p = self.p_sum()
        self.need_op(",")
        return St("seek", ln, path=p, e=self.expr())

    def s_WRITE(self, ln):
        self.need_op("#")
        p = self.p_sum()
        items = []
        while self.eat_op(","):
            items.append(self.expr())
        return St("write", ln, path=p, items=items)

    def s_SHELL(self, ln):
        return St("shell", ln, e=self.expr())

    def _one_expr(kind):
        def f(self, ln):
            return St(kind, ln, e=self.expr())
        return f

    s_CHD = _one_expr("chd")
    s_CHX = _one_expr("chx")
    s_KILL = _one_expr("kill")
    s_DELETE = _one_expr("delete")
    s_CHAIN = _one_expr("chain")

    def s_END(self, ln):
        e = None
        if not self.at_end():
            e = self.expr()
        return St("end", ln, e=e)

    def _plain(kind):
        def f(self, ln):
            return St(kind, ln)
        return f

    s_STOP = _plain("stop")
    s_BYE = _plain("bye")
    s_TRON = _plain("tron")
    s_TROFF = _plain("troff")
    s_PAUSE = _plain("pause")
    s_DEG = _plain("deg")
    s_RAD = _plain("rad")


def parse_lines(text):
    """-> list of statements (flat, in order), each with .line (1-based text line), .label
    (only on the first statement of a labelled line), .first_in_line.  Raises B09SyntaxError."""
    out = []
    for lineno, raw in enumerate(text.replace("\r\n", "\n").replace("\r", "\n").split("\n"), 1):
        toks, comment = lex_line(raw, lineno)
        label = None
        if toks and toks[0][0] == "num" and not toks[0][1][1]:
            label = toks[0][1][0]
            toks = toks[1:]
        elif toks and toks[0][0] == "num":
            raise B09SyntaxError("line starts with a non-integer number", lineno, toks[0][2], raw)
        if not toks:
            if label is not None or comment is not None:
                s = St("rem", lineno, text=comment or "")
                s.label = label
                s.first_in_line = True
                out.append(s)
            continue
        p = _P(toks, lineno, raw)
        first = True
        while True:
            if p.at_end():
                # empty statement between backslashes / after THEN
                if p.i >= len(p.t):
                    break
                p.i += 1
                if p.i >= len(p.t):
                    break
                continue
            s = p.statement()
            s.first_in_line = first
            if first:
                s.label = label
                first = False
            out.append(s)
            if s.k in ("if", "else", "loop", "exitif", "while", "repeat") and not p.at_end():
                # tolerated: a statement directly after THEN / ELSE (as the library does)
                continue
            if p.i >= len(p.t):
                break
            if not p.is_op("\\"):
                p.err("expected \\ or end of line after statement")
            p.i += 1
            if p.i >= len(p.t):
                # a separator with nothing behind it: BASIC09 wants a statement after every backslash
                p.err("statement expected after \\ at the end of the line")
        if first and label is not None:
            s = St("rem", lineno, text="")
            s.label = label
            s.first_in_line = True
            out.append(s)
        if comment is not None and out and out[-1].line == lineno:
            out[-1].trailing_comment = comment
    return out


class Proc(object):
    def __init__(self, name, line):
        self.name = name
        self.line = line
        self.body = []


def split_procedures(stmts):
    """-> list of Proc.  Statements before the first PROCEDURE header form an anonymous
    procedure with name None (convert() without dependencies emits exactly that)."""
    procs = []
    cur = None
    for s in stmts:
        if s.k == "procedure":
            cur = Proc(s.name, s.line)
            procs.append(cur)
            continue
        if cur is None:
            cur = Proc(None, s.line)
            procs.append(cur)
        cur.body.append(s)
    return procs


_OPEN = {"if": "endif", "loop": "endloop", "exitif": "endexit", "while": "endwhile", "repeat": "until", "for": "next"}
_CLOSERS = {"endif", "endloop", "endexit", "endwhile", "until", "next", "else"}


def check_blocks(proc):
    """Validate block nesting of one procedure and annotate statements with .match
    (index of the partner statement in proc.body).  Raises B09SyntaxError."""
    stack = []
    body = proc.body
    for idx, s in enumerate(body):
        k = s.k
        if k in _OPEN:
            if k == "exitif":
                if not any(body[j].k in ("loop", "while", "repeat", "for") for j, _ in stack):
                    raise B09SyntaxError("EXITIF outside of a loop", s.line)
            stack.append((idx, _OPEN[k]))
            s.else_idx = None
        elif k == "else":
            if not stack or stack[-1][1] != "endif":
                raise B09SyntaxError("ELSE without IF", s.line)
            o = body[stack[-1][0]]
            if o.else_idx is not None:
                raise B09SyntaxError("second ELSE for one IF", s.line)
            o.else_idx = idx
            s.match = stack[-1][0]
        elif k in _CLOSERS:
            if not stack or stack[-1][1] != k:
                exp = stack[-1][1].upper() if stack else "nothing open"
                raise B09SyntaxError("%s does not close the innermost open block (expected %s)" % (k.upper(), exp), s.line)
            oidx, _ = stack.pop()
            o = body[oidx]
            if k == "next" and o.var != s.var:
                raise B09SyntaxError("NEXT %s closes FOR %s" % (s.var, o.var), s.line)
            o.match = idx
            s.match = oidx
    if stack:
        o = body[stack[-1][0]]
        raise B09SyntaxError("%s opened at line %d is never closed" % (o.k.upper(), o.line), o.line)


def parse_program(text, check=True):
    """Full structural parse: -> list of Proc with validated block structure."""
    stmts = parse_lines(text)
    procs = split_procedures(stmts)
    if check:
        for p in procs:
            check_blocks(p)
    return procs


def parse_expr(text):
    toks, _ = lex_line(text, 0)
    p = _P(toks, 0, text)
    e = p.expr()
    if p.i != len(toks):
        p.err("trailing tokens after expression")
    return e
