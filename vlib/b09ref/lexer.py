"""BASIC09 lexer (line oriented).  Trusted base, see DESIGN.md 3.2 / Appendix E."""
import re


class B09SyntaxError(Exception):
    def __init__(self, msg, line=None, col=None, text=None):
        Exception.__init__(self, msg)
        self.msg = msg
        self.line = line
        self.col = col
        self.text = text

    def __str__(self):
        return "%s (line %s col %s: %r)" % (self.msg, self.line, self.col, (self.text or "")[:120])


_NUM = re.compile(r"(\d+\.?\d*|\.\d+)([Ee][+-]?\d+)?")
_HEX = re.compile(r"\$[0-9A-Fa-f]+")
_ID = re.compile(r"[A-Za-z_][A-Za-z0-9_]*\$?")
_OPS2 = (":=", "<>", "<=", ">=", "=<", "=>", "**")
_OPS1 = "=<>+-*/^(),;:#[].\\"


def lex_line(text, lineno=0):
    """-> list of (kind, value, col); kinds: num hex str id op.  Comments are dropped
    (returned separately as the second result: comment text or None)."""
    toks = []
    i, n = 0, len(text)
    comment = None
    while i < n:
        c = text[i]
        if c in " \t":
            i += 1
            continue
        if text.startswith("(*", i):
            comment = text[i:]
            break
        if c == "!":
            comment = text[i:]
            break
        if c == '"':
            j = i + 1
            buf = []
            while True:
                if j >= n:
                    raise B09SyntaxError("unterminated string literal", lineno, i, text)
                if text[j] == '"':
                    if j + 1 < n and text[j + 1] == '"':
                        buf.append('"')
                        j += 2
                        continue
                    break
                buf.append(text[j])
                j += 1
            toks.append(("str", "".join(buf), i))
            i = j + 1
            continue
        m = _NUM.match(text, i)
        if m:
            s = m.group(0)
            is_real = ("." in s) or ("e" in s.lower())
            v = float(s)
            if not is_real and v > 32767:
                is_real = True
            toks.append(("num", (v if is_real else int(s), is_real, s), i))
            i = m.end()
            continue
        m = _HEX.match(text, i)
        if m:
            toks.append(("hex", int(m.group(0)[1:], 16), i))
            i = m.end()
            continue
        m = _ID.match(text, i)
        if m:
            word = m.group(0)
            if word.upper() == "REM":
                comment = text[i:]
                break
            toks.append(("id", word, i))
            i = m.end()
            continue
        two = text[i:i + 2]
        if two in _OPS2:
            toks.append(("op", two, i))
            i += 2
            continue
        if c in _OPS1:
            toks.append(("op", c, i))
            i += 1
            continue
        raise B09SyntaxError("illegal character %r" % c, lineno, i, text)
    return toks, comment
