import argparse
import sys

from . import boot, run


def main(argv=None):
    ap = argparse.ArgumentParser(prog="check")
    ap.add_argument("property")
    ap.add_argument("--tier", choices=["quick", "thorough"], default=None)
    ap.add_argument("--replay", default=None)
    a = ap.parse_args(argv)
    import os

    tier = a.tier or os.environ.get("VERIF_TIER") or "quick"
    if tier not in ("quick", "thorough"):
        tier = "quick"
    boot.assert_repo()
    if a.property.lower() == "selftest":
        from . import selftest

        fails = selftest.run()
        for f in fails:
            print("SELFTEST-FAILURE " + f)
        print("selftest: %d cases, %d failures" % (selftest.count(), len(fails)))
        return 2 if fails else 0
    pid = a.property.upper()
    if a.replay:
        return run.replay(pid, a.replay)
    return run.check(pid, tier)


if __name__ == "__main__":
    sys.exit(main())
