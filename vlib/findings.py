"""KNOWN_FINDINGS.txt: committed, read-only at run time.

    known: property=C01 sig=<signature> witness=<json> :: what fails
    fixed: property=C12 <commit> what failed          (suppresses nothing)
"""
import json
import os
import re

HOME = os.environ.get("VERIF_HOME") or os.path.dirname(os.path.dirname(os.path.abspath(__file__)))
PATH = os.path.join(HOME, "KNOWN_FINDINGS.txt")

_LINE = re.compile(r"^known:\s+property=(\S+)\s+sig=(\S+)\s+witness=(.*?)\s+::\s+(.*)$")


def load(pid=None):
    out = []
    if not os.path.exists(PATH):
        return out
    for ln in open(PATH, encoding="utf-8"):
        ln = ln.rstrip("\n")
        m = _LINE.match(ln)
        if not m:
            continue
        p, sig, wit, what = m.groups()
        if pid and p != pid:
            continue
        try:
            w = json.loads(wit) if wit and wit != "-" else None
        except ValueError:
            w = None
        out.append({"property": p, "sig": sig, "witness": w, "what": what})
    return out
