#!/bin/sh
# tools/sweep.sh <tier> <seed>... : run every check (or those named in $CHECKS) once per seed, print the summary lines and anything alarming
tier=$1; shift
cd "$(dirname "$0")/.."
for s in "$@"; do
  for c in ${CHECKS:-C01 C02 C03 C04 C05 C06 C07 C08 C09 C10 C11 C12 C13 C14 C15 C16 C17 C18 C19 C20}; do
    out=$(VERIF_SEED=$s ./check $c --tier $tier 2>&1); rc=$?
    echo "$out" | grep -E "^(VIOLATION|INCONCLUSIVE|STALE)" | cut -c1-300
    echo "rc=$rc $(echo "$out" | tail -1 | cut -c1-160)"
  done
done
