#!/bin/sh
# tools/seeded_round.sh <round> <letter> [ids...] : verify the seeded changes of one round (worktrees /tmp/w<round>-Cxx)
rnd=$1; let=$2; shift 2
ids=${*:-"C01 C02 C03 C04 C05 C06 C07 C08 C09 C10 C11 C12 C13 C14 C15 C16 C17 C18 C19 C20"}
cd "$(dirname "$0")/.."
for p in $ids; do
  wt=/tmp/w$rnd-$p
  [ -f $wt/patch.diff ] || { echo "=== $p: no patch yet"; continue; }
  echo "=== $p: $(tools/seeded.sh $wt $p $p-$let 2>&1 | grep -E 'check .* rc=|demo:|suite' | sed 's/--- //' | tr '\n' ' ' | cut -c1-200)"
done
