#!/usr/bin/env python3
"""Regenerates MANIFEST.json from the table below (kept valid at all times)."""
import json, os, sys
HERE = os.path.dirname(os.path.dirname(os.path.abspath(__file__)))
props = [json.loads(l) for l in open(os.path.join(HERE, "properties.jsonl"))]
ids = [p["id"] for p in props]

CHECKS = {
 "C01": dict(cat="exploration", ref="6/C01", tech="differential execution: Color BASIC reference model vs reference BASIC09 interpreter running the text emitted by the real convert(); counterfactual re-runs for diagnosis",
   text="runtime monitor over generated executions: every expression case is converted by the real tool and its output executed; values, branches, loop ranges, subscripts and ON targets are compared per valuation. Bounded-exhaustive over operator shapes (<=2 quick, <=3 thorough), literal spellings and built-in functions, random beyond. Held on what was run, not a proof.",
   note="trusted base: the two reference models written from the manuals (DESIGN.md section 3); values restricted to a domain where both float formats agree"),
 "C07": dict(cat="exploration", ref="6/C07", tech="post-condition monitor on every successful convert(): reference BASIC09 statement parser + block-structure validator + leak scan; counterfactual (de-hazarded) re-run for diagnosis",
   text="every accepted program of a grammar-directed workload over all statement kinds, all examples and ten option sets is parsed by an independent BASIC09 parser; a failure is a violation unless the de-hazarded variant of the same program parses, in which case it is attributed to the listed known mechanism",
   note="trusted base: vlib/b09ref/parser.py (DESIGN.md Appendix E), deliberately tolerant where real BASIC09 behaviour is uncertain"),
 "C15": dict(cat="exploration", ref="6/C15", tech="exception-class and CPU-time monitor at the boundary of convert() and decb_to_b09.start() under grammar-directed mutational workloads",
   text="every outcome of the real entry points is classified as converted / documented refusal / internal exception (root cause unwrapped from parsimonious VisitationError) and timed (process CPU); inputs are mutated generated programs, extreme literals, deep nesting, bad option values and command lines with legal file stems",
   note="documented refusal classes are listed in the evidence assumptions; hang = more than 20 s CPU for one input"),
 "C12": dict(cat="exploration", ref="6/C12", tech="hash-seed sweep in fresh interpreter processes + in-process repetition with shuffled neighbours and reversed history; SHA-256 equality monitor",
   text="the same (text, options) / (image file, options) is executed by the real code under 8 (quick) or 32 (thorough) PYTHONHASHSEED values in fresh processes, three times in one process between other conversions, and in reversed order; any two differing outputs are a violation, diagnosed by the first differing line",
   note="PYTHONHASHSEED is the only schedule nondeterminism of this single-threaded pure-Python code; programs are biased to set/dict-ordered constructs"),
 "C16": dict(cat="exploration", ref="6/C16", tech="reference encoder -> real decoder -> independent PNM/PNG reader; pixel-exact comparison with a reference rendering",
   text="every layout variant of every uncompressed format is produced by a reference encoder, decoded by the real tool, and each pixel compared; the 64 shifted palettes put every colour code into every palette slot",
   note="trusted base: colour function and layouts in vlib/img/model.py; MGE c2r table and MAX artifact filter are snapshots (changes detected only)"),
 "C17": dict(cat="exploration", ref="6/C17", tech="nondeterministic reference compressors with adversarial presets -> real decoder -> pixel-exact comparison; direct contract on unsquash()",
   text="each image is compressed many ways (run splitting, literal vs repeat, escape use, copy-left/copy-up) and must decode to the same pixels; the RAT defect is attributed only when the 'low nibble & 7' hypothesis explains the whole picture",
   note="reference encoders are self-checked by reference expansion; layouts in DESIGN.md Appendix C"),
 "C18": dict(cat="exploration", ref="6/C18", tech="conservation monitor (samples written = samples announced by the parsed header) over geometry/option sweeps; skip-vs-prefix-removal and pipes-vs-files metamorphic checks with real subprocesses",
   text="the produced bytes are parsed by an independent reader; size must equal what format/options/header fields dictate and the payload must be complete",
   note="well-formed input carries ceil(width/pixels-per-byte) bytes per row"),
 "C19": dict(cat="fault_enumeration", ref="6/C19", tech="fault enumeration (all prefixes, control-byte corruptions, appended garbage, random strings) under the C18 conservation monitor and an exit-status monitor",
   text="every prefix of small valid files of each format and every listed corruption is decoded by the real tool; verdict failed / complete / incomplete, the last being a violation; CPU per case bounded",
   note="failure = exception, non-zero exit, or MAX's documented False result with the output removed"),
 "C14": dict(cat="exploration", ref="6/C14", tech="interface monitor: RUN sites parsed from real convert() outputs and from the library checked against PARAM/TYPE lines parsed from the current ecb.b09",
   text="for each emitted program of a construct-covering workload every RUN site is checked for a defined callee, argument count and argument class; record types are compared field for field between prologue and callee; the library's own 130+ RUN sites are checked the same way",
   note="classes are string / numeric / record as the property states; typing of expressions is coarse (b09ref/static.py)"),
 "C20": dict(cat="exploration", ref="6/C20", tech="reference BASIC09 interpreter executing the helper procedures from the current ecb.b09 against the Color BASIC definitions; bounded-exhaustive arguments; call sites through convert()",
   text="ecb_instr, ecb_string and ecb_read_filter are interpreted for every argument tuple inside the stated bounds (exhaustive) and compared with the Color BASIC definition; call sites are converted by the real tool and executed with distinguishable argument roles",
   note="trusted base: vlib/b09ref (MID$, LEN, VAL, FOR semantics from the manual)"),
 "C06": dict(cat="exploration", ref="6/C06", tech="label/jump-table monitor over parsed convert() output with per-line markers, refusal-class monitor, and dynamic runs of the 32700 dispatcher on the reference interpreter",
   text="random reference graphs: every jump target must label exactly the emitted line that carries the marker of that source line; label sets with/without filtering are compared with the referenced set; programs that must be refused must raise the documented class; the dispatcher is executed with break and non-break error codes",
   note="markers are PRINT \"L<n>\" statements; errnum is treated as the error-code source"),
 "C10": dict(cat="exploration", ref="6/C10", tech="declaration-table monitor: DIM/identifier uses parsed from convert() output vs the table computed from the abstract source program",
   text="programs place each variable kind in chosen syntactic positions; arrays must be declared once, before use, with bound+1 (or 11) per dimension; with a non-default string size every string identifier must carry the expected STRING[n]",
   note="expected sizes follow the property text (per-name size only for names DIMensioned in the source)"),
 "C13": dict(cat="exploration", ref="6/C13", tech="post-condition monitor on bundles: closure over the library call graph computed by the reference parser, verbatim comparison of bundled procedures with the library text, user text comparison",
   text="bundle structure (root last, sorted, unique, exactly the RUN-closure), placeholder substitution and preservation of the user's procedure are checked for programs with hostile literals/DATA/comments, nine procedure names and three string sizes",
   note="call graph = RUN statements as parsed (strings, DATA, comments excluded); comment text is not protected by the property"),
 "C08": dict(cat="exploration", ref="6/C08", tech="metamorphic monitor over layouts of one token list (canonical / minimal / random / single-gap sweep / ? / line ends / NUL) on the real convert(), with single-gap localisation for diagnosis",
   text="all layouts of a program must be refused alike or give byte-identical output; content spans must reappear exactly; failures are localised to one token boundary, whose token classes form the signature",
   note="boundary classes (hard / none / required / soft / literal-internal) come from the renderer in vlib/cbref/ast.py"),
 "C09": dict(cat="exploration", ref="6/C09", tech="identifier monitor: identifiers read off the reference parser's tree of convert() output at generator-known positions, compared with the Color BASIC identity function",
   text="all 962 one/two-character names in four kinds and nine positions (exhaustive), plus sampled pair programs for longer names; identifiers must be exactly first-two-characters + suffix + arr_ prefix, equal iff Color BASIC equates the names, and never a generated name",
   note="BASIC09 reserved two-letter names are skipped as the README directs"),
 "C11": dict(cat="exploration", ref="6/C11", tech="metamorphic monitor over all 32 option combinations (pairs at Hamming distance 1 vs documented delta) and CLI-vs-convert byte comparison with an audit hook on file opens",
   text="for each program all option combinations are converted; each single-option change must produce exactly its documented delta; decb_to_b09.start(argv) must write convert(text, mapped options, procname=stem) with CR line ends and touch no other file",
   note="documented deltas: DESIGN.md section 6/C11"),
 "C04": dict(cat="exploration", ref="6/C04", tech="event-trace monitor: RUN/POKE events of the reference BASIC09 interpreter executing convert() output vs the events the Color BASIC reference derives from a role table; positions mapped to PARAM names of the current library",
   text="every device statement form x presence pattern of optional operands (exhaustive) with operand kinds rotated / multiplied, each operand carrying a distinct value; procedure, parameter-name placement, defaults, call order of device functions and the HBUFF prologue are compared",
   note="role table = DESIGN.md Appendix B; device procedures are stubs (their screen effect is not modelled)"),
 "C05": dict(cat="exploration", ref="6/C05", tech="call-event trace monitor (reference BASIC09 interpreter vs Color BASIC reference, scripted device tape) plus a static def-before-use monitor for tmp_N per emitted statement group",
   text="every convertible-function nesting in every carrier statement: the sequence of (procedure, argument values) must equal the source's left-to-right innermost-first call sequence, results must reach the right place, and no physical line may read a temporary it did not assign",
   note="STR$'s known format defect is emulated on the source side so that only calls are judged here"),
 "C02": dict(cat="exploration", ref="6/C02", tech="PRINT-trace and termination monitor: Color BASIC reference vs reference BASIC09 interpreter on convert() output, 4 option sets, step budget 20x source steps; counterfactual and hypothesis re-runs for diagnosis",
   text="generated terminating programs over the control-flow fragment log every effect; the emitted program must print the same sequence and stop; known mechanisms are attributed only when adding the missing ELSE / emulating a bottom-tested FOR makes the traces agree",
   note="trusted base: the two reference interpreters; lexically nested loops, unique ascending line numbers"),
 "C03": dict(cat="exploration", ref="6/C03", tech="PRINT/INPUT-trace, final-store and uninitialised-read monitors over the two reference interpreters; counterfactual programs (explicit DIM, quoted DATA) for diagnosis",
   text="generated data programs (arrays with corner stores and read-back, DATA/READ/RESTORE with all item kinds, PRINT arrangements, INPUT forms, string functions on boundary arguments) must give the same event stream and store; with pre-initialisation requested no user variable may be read before assignment",
   note="numbers are compared by value; BASIC09 base 0 / DIM n gives 0..n-1; READ needs class agreement"),
}

def main():
    checks = []
    for pid in ids:
        c = CHECKS.get(pid)
        if not c:
            continue
        checks.append({
            "property_id": pid,
            "quick_cmd": "./check %s --tier quick" % pid,
            "thorough_cmd": "./check %s --tier thorough" % pid,
            "evidence_file": "/verif/evidence/%s.json" % pid,
            "replay_cmd_template": "./check %s --replay {path}" % pid,
            "engine": "vlib",
            "level_claimed": {"category": c["cat"], "text": c["text"], "design_ref": "DESIGN.md section " + c["ref"]},
            "level_note": c["note"],
            "technique": c["tech"],
        })
    na = [{"property_id": p, "reason": "check not built yet (work in progress; see DESIGN.md section 6)"} for p in ids if p not in CHECKS]
    m = {
        "version": 1,
        "setup_cmd": "./setup.sh",
        "hooks": {"guard": "COCO_TOOLS_VERIF",
                  "enable": "no source hooks: every probe and contract attaches from /verif by wrapping attributes of the imported coco modules; ./check exports COCO_TOOLS_VERIF=1 for its own use only",
                  "baseline_off_cmd": "cd /repo && /venv/bin/python -m pytest -ra -q -p no:cacheprovider --timeout=900 --continue-on-collection-errors",
                  "source_commits": [], "add_only": True},
        "engines": [{"name": "vlib", "path": "/verif/vlib", "serves_properties": [c["property_id"] for c in checks],
                     "kind_free_text": "runtime monitoring: sharded workload runner executing the real coco code under boundary wrappers; oracles = reference Color BASIC / BASIC09 interpreters, reference image encoders, conservation and metamorphic monitors"}],
        "checks": checks,
        "not_applicable": na,
        "notes": "Known findings: /verif/KNOWN_FINDINGS.txt. Exit codes: 0 held on what was observed, 1 violation, 2 inconclusive.",
    }
    json.dump(m, open(os.path.join(HERE, "MANIFEST.json"), "w"), indent=1)

if __name__ == "__main__":
    main()
