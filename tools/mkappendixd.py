#!/usr/bin/env python3
"""Regenerate the table of DESIGN.md Appendix D from the known: lines of KNOWN_FINDINGS.txt."""
import os
import re

HERE = os.path.dirname(os.path.dirname(os.path.abspath(__file__)))


def main():
    rows = []
    for ln in open(os.path.join(HERE, "KNOWN_FINDINGS.txt")):
        m = re.match(r"known: property=(\S+) sig=(\S+) witness=.*? :: (.*)$", ln.strip())
        if m:
            rows.append("| %s | `%s` | %s |" % (m.group(1), m.group(2), m.group(3).replace("|", "/")))
    p = os.path.join(HERE, "DESIGN.md")
    s = open(p).read()
    a = s.index("| property | signature | what fails |")
    b = s.index("## Appendix E")
    s = s[:a] + "| property | signature | what fails |\n|---|---|---|\n" + "\n".join(rows) + "\n\n" + s[b:]
    open(p, "w").write(s)
    print("known findings:", len(rows))


if __name__ == "__main__":
    main()
