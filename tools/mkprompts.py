#!/usr/bin/env python3
"""tools/mkprompts.py <round> <outdir>: write one prompt per property for a sub-agent that is to seed a breaking change.
The prompt contains only the property's text (from properties.jsonl) and the agents' own descriptions of the changes of
earlier rounds (so that a new mechanism is chosen) - nothing about /verif's machinery."""
import glob
import json
import os
import re
import sys

HERE = os.path.dirname(os.path.dirname(os.path.abspath(__file__)))

FLAVOURS = {
    4: ("This round, aim for one of these flavours: (a) state that survives from one call / statement / line / file to the next (a cache, a "
        "mutable default, visitor or parser state that is not reset, a buffer reused between rows or pages); (b) a rarely used option VALUE or "
        "option COMBINATION (including values below as well as above a default, and options given twice or in an unusual order); (c) a "
        "less-travelled file or function (for the transpiler: error_handler.py, configs.py, decb_to_b09.py, procbank.py, the less common "
        "statement classes in elements.py, the less common grammar rules; for the decoders: the header / option handling rather than the "
        "pixel loop); (d) an off-by-one at the LAST element, row, page, argument or line rather than the first. Keep it realistic and keep "
        "all 306 tests passing."),
    5: ("This round, aim for one of these flavours: (a) a defect that only shows when TWO different constructs share something (the same "
        "variable name in two roles, the same line number as target of two kinds of jump, the same temporary, the same literal); (b) a defect "
        "visible only in LONG or LARGE inputs (many statements on a line, many lines, many DATA items, big dimensions, long strings, many "
        "arguments); (c) a defect that depends on the ORDER of otherwise independent statements or options; (d) an innocent-looking change of a "
        "regular expression, a grammar rule or a lookup table that shifts what is matched in a corner case. Keep it realistic and keep all 306 "
        "tests passing."),
    6: ("This round, aim for one of these flavours. For the transpiler properties: (a) a change inside the BASIC09 runtime library "
        "coco/resources/ecb.b09 (one of its ~55 procedures) or in how the transpiler passes arguments to it; (b) numeric edge semantics "
        "(negative numbers, fractions, zero, values at 32767/32768/65535, very large or very small exponents, hex bounds); (c) a "
        "table-driven slip: one entry of a keyword / function / statement table or one alternative of a grammar rule, so that only ONE "
        "statement or function among its many siblings misbehaves; (d) a two-site change where a helper's contract changes and one "
        "of its callers is not updated. For the image-decoder properties: (a) one specific pixel mode / picture type / header variant "
        "among several; (b) colour arithmetic (palette bit order, rounding, component order); (c) option and argument handling (types, "
        "defaults, stdin/stdout, file opening modes); (d) details of the written file format (PNM header fields, PNG chunks). Keep it "
        "realistic and keep all 306 tests passing."),
    7: ("This round, first read the tests under tests/ to learn what IS covered, then break something the property covers that neither a "
        "test nor an obvious smoke run touches. Flavours: (a) convert() options that are not command-line flags (add_standard_prefix, "
        "add_suffix, skip_procedure_headers, compiler_configs) or their interaction with the flags; (b) behaviour at exact boundary values "
        "(0, 1, -1, 255/256, 32767/32768, the empty string, a one-character string, a one-line or empty program, a one-pixel or one-row "
        "image, the first or last legal line number); (c) file and stream handling (what is written or left behind when something "
        "fails, stdin/stdout, text vs binary mode, encodings, an output file that already exists, relative paths); (d) exit statuses, "
        "refusal paths and which exception class comes out; (e) a change that is right for every input except one small value class. "
        "Keep it realistic and keep all 306 tests passing."),
    8: ("This round, work like a mutation tester: make a SINGLE-TOKEN (or single-line) mutation of the kind mutation tools apply - "
        "a relational operator (< to <=, == to !=), an off-by-one constant or index, two swapped arguments, a wrong but "
        "same-typed variable, a dropped 'not', 'and' swapped with 'or', a removed statement or early return, a changed default - in "
        "code the property depends on. Try candidates until you have one that (1) survives the whole test suite and (2) really "
        "breaks the property as stated for some input. Prefer the survivor that needs the most specific input. Keep all 306 tests "
        "passing."),
}
FLAVOURS[9] = FLAVOURS[8] + (" Choose a site (file, function or library procedure) that NONE of the earlier changes listed above touched, "
                             "and say in meta.json how many candidate mutants you tried and how many survived the suite.")
FLAVOURS[10] = FLAVOURS[9] + (" Assume a capable property-based / differential checker is already watching this property with generated "
                               "programs and files; among your survivors pick the one such a checker is LEAST likely to have in its "
                               "workload (a spelling, value, option or sequence nobody would think of generating), not the one with the "
                               "biggest effect.")

FLAVOURS[11] = ("This round, do NOT produce a single-token mutant. Write the kind of commit a well-meaning contributor sends as a pull "
                "request: a small refactoring (a loop turned into a comprehension or a library call, two similar branches merged, a "
                "helper extracted and reused at a second site, a regular expression or grammar rule 'simplified', duplicated code "
                "unified), a performance improvement (a cache, memoisation, an early exit, a pre-computed table, reading a file in one "
                "go), or a small feature / leniency (accepting one more spelling, one more option value, a friendlier error) of 5-40 "
                "changed lines. Give it a plausible commit message in meta.json ('commit_message'). The break of the property must be "
                "a SIDE EFFECT that a reviewer reading the diff would probably not notice - the diff should look like an improvement - "
                "and, as before, it must need something specific to manifest and differ in mechanism from the earlier changes listed "
                "above.")

FLAVOURS[12] = ("This round, write a well-meaning BUG-FIX pull request (not a single-token mutant, 5-40 changed lines, with a "
                "'commit_message' in meta.json): the contributor has noticed a real or imagined wart of the tool - an inconsistency "
                "between two similar code paths, a case that raises an unfriendly error, a duplicated declaration, an odd-looking "
                "special case, a TODO, something a linter or type checker complains about, a deprecated idiom - and 'fixes' it. The "
                "fix does what its message says for the case the contributor had in mind, but it over-reaches or under-reaches: it "
                "also changes behaviour for a neighbouring class of inputs, removes a special case that was there for a reason, or "
                "makes two code paths consistent in the WRONG direction. The break of the property must come from that side effect, "
                "must need something specific to manifest, and must differ in mechanism from the earlier changes listed above.")

FLAVOURS[13] = ("This round, the change is an otherwise reasonable small commit (refactoring, feature, fix or clean-up of 5-40 lines, with a "
                "'commit_message' in meta.json) that falls into a CLASSIC PYTHON PITFALL, and the pitfall is what breaks the property: "
                "`x or default` where 0, 0.0, '' or an empty list is a legitimate value; `is` / `==` confusion; truthiness of a "
                "container or a parse node; late-binding closures in a loop; a generator or iterator consumed twice; dict / set "
                "iteration order or `sorted()` on mixed keys; `str.strip('abc')` / `lstrip` / `rstrip` taken for prefix removal; "
                "`str.split()` vs `split(' ')`; `int()` / `round()` / `//` / `%` on negative or half values; float formatting and "
                "`repr`; bytes vs str, `ord` / `chr` / `latin-1` vs `utf-8`; slices that silently clamp; `zip` that silently "
                "truncates; `dict.get` default evaluated eagerly; class attributes shared between instances; exception handlers "
                "that catch too much (or `except A, B` semantics); regular-expression anchors, greediness and flags (`$` before a "
                "final newline, `.` and newlines, `re.match` vs `fullmatch`); `isdigit()` on non-ASCII digits; text-mode newline "
                "translation. Pick one that fits the code you are changing; it must need something specific to manifest and differ "
                "in mechanism from the earlier changes listed above.")

FLAVOURS[14] = ("This round, write a HARDENING pull request (5-40 changed lines, 'commit_message' in meta.json): input validation, "
                "defensive checks, friendlier diagnostics, logging / verbose output, resource limits, 'fail early' guards, try/except "
                "blocks around risky code, type checks, normalising input before it is processed (stripping, case folding, encoding), "
                "clamping values into a range, replacing a crash by a default. The hardening does what its message says, but it is a "
                "little too strict, too lenient or too helpful: it refuses or alters something valid that lies just inside the "
                "boundary it draws, swallows an error that should have surfaced, writes a diagnostic to a stream that carries data, "
                "or 'repairs' an input in a way that changes its meaning. The break of the property must come from that, must need "
                "something specific to manifest, and must differ in mechanism from the earlier changes listed above.")

FLAVOURS[15] = ("This round, write a small FEATURE pull request (8-60 changed lines, 'commit_message' in meta.json) that lifts a limitation "
                "or adds support for something the tool refuses or ignores today - read README.md, README.decb-to-b09.md, the "
                "grammar and the decoders' option lists for candidates (one more statement form or spelling, one more option or "
                "option value, one more file-format variant, one more operand shape, a convenience default, a new command-line "
                "flag that is plumbed through two or three layers). The feature works for the case its author tested. The break of "
                "the property must come from how the new code path interacts with an EXISTING one - an old construct now parses "
                "through the new rule, a default changed for existing callers, a shared helper got a new parameter whose default is "
                "wrong for one old caller, ordered alternatives shadow each other, an option is plumbed to one layer but not the "
                "next - must need something specific to manifest, and must differ in mechanism from the earlier changes listed "
                "above.")

FLAVOURS[16] = ("This round, write a CLEAN-UP pull request that REMOVES or SIMPLIFIES code (5-40 changed lines, net deletion, "
                "'commit_message' in meta.json): a branch, special case, guard, fallback, table entry, visitor method, grammar "
                "alternative, look-ahead, normalisation step, default argument, 'redundant' re-initialisation, duplicate pass or "
                "defensive copy that looks dead, redundant or over-cautious to someone reading the code and running the tests - "
                "coverage shows it is never hit by the suite, a linter flags it, two branches look identical, a variable is assigned "
                "twice - but that is in fact needed for an unusual input, option value or sequence of calls. The break of the "
                "property must come from the removed behaviour, must need something specific to manifest, and must differ in "
                "mechanism from the earlier changes listed above.")

FLAVOURS[17] = ("This round, the contributor holds a PLAUSIBLE BUT WRONG BELIEF about a corner of the semantics - of Color BASIC / "
                "Extended Color BASIC (rounding, operator precedence, string function edge cases, FOR / NEXT, IF / ELSE binding, "
                "DATA / READ, PRINT formatting, what is an error and what is not), of BASIC09 (parameter passing, numeric types, "
                "string sizes, statement syntax), of the command line conventions, or of one of the picture file formats (byte and "
                "nibble order, what a count means, where a header ends, which values are legal) - and sends a 5-40 line pull request "
                "('commit_message' in meta.json) that 'corrects' the tool towards that belief in a corner the tests do not pin. The "
                "commit message argues the belief convincingly (it may cite a manual from memory). The change must break the property "
                "as literally stated, must need something specific to manifest, and must differ in mechanism from the earlier "
                "changes listed above.")

FLAVOURS[18] = ("This round the change must sit in the LAYER THE PYTHON TESTS SEE LEAST. For the transpiler properties: in the BASIC09 "
                "runtime library coco/resources/ecb.b09 (the body, PARAM / DIM / TYPE lines or internal RUN calls of one of its "
                "procedures), or in the code that loads, sizes and bundles it (coco/b09/procbank.py) - not in the grammar, parser, "
                "visitors or elements. For the image decoder properties: in the code that WRITES the output (header text, maxval, "
                "sample packing and order, row / page buffering, PNG palette and resize step, closing and flushing, what happens to "
                "the output file on failure) or that turns option values into geometry - not in the decompression loops. Any "
                "plausible motive is fine (5-40 changed lines, 'commit_message' in meta.json). The change must break the property "
                "as literally stated, must need something specific to manifest, and must differ in mechanism from the earlier "
                "changes listed above. If the property cannot be broken from that layer at all, say so in meta.json and fall back to "
                "the nearest layer that can.")

FLAVOURS[19] = ("This round, write a MODERNISATION pull request (8-60 changed lines, 'commit_message' in meta.json): the kind of "
                "commit that brings old code up to current Python idiom without meaning to change behaviour - f-strings / "
                "str.format instead of % and concatenation, str methods (removeprefix, partition, casefold, isdigit, splitlines) "
                "instead of slices and regexes or the other way round, bytes / bytearray / struct / int.from_bytes / memoryview "
                "instead of ord / chr loops, pathlib instead of os.path, enumerate / zip / itertools / comprehensions / generators "
                "instead of index loops, dict / set / functools.cache instead of lists and recomputation, dataclasses / Enum / "
                "match statements, context managers, argparse types and choices, typing-driven signature changes, or the BASIC09 "
                "library's equivalents (a loop replaced by a built-in, a GOTO by a structured statement). The new idiom must differ "
                "from the old code in a corner the tests do not pin, so that the property - as literally stated - breaks for "
                "specific inputs while everything else is byte-identical. It must differ in mechanism from the earlier changes "
                "listed above.")

FLAVOURS[20] = ("This round, write a COMPATIBILITY / PORTABILITY pull request (8-60 changed lines, 'commit_message' in meta.json): "
                "a commit that claims to make the code work on another platform or with another version of something - Windows "
                "(text-mode files, CRLF, backslash paths, cp1252 / locale default encodings, no /dev/stdout), Python 3.8 or 3.13 "
                "(removed or new stdlib behaviour, argparse changes), a newer or older parsimonious / pydantic / PyYAML / pypng API, "
                "PyPy, a frozen / zipped install (importlib.resources instead of file paths), non-seekable streams and pipes, "
                "big files, or an OS-9 / BASIC09 edition with tighter limits (identifier length, line length, string size, "
                "nesting) for the emitted text and the runtime library. The shim, fallback or re-spelling must differ from the "
                "old behaviour in a corner the tests do not pin, so that the property - as literally stated - breaks for specific "
                "inputs ON THIS PLATFORM (Linux, the installed versions) while everything else is byte-identical. It must differ "
                "in mechanism from the earlier changes listed above.")


def main():
    rnd, outdir = int(sys.argv[1]), sys.argv[2]
    os.makedirs(outdir, exist_ok=True)
    props = [json.loads(l) for l in open(os.path.join(HERE, "properties.jsonl"))]
    for p in props:
        pid = p["id"]
        wt = "/tmp/w%d-%s" % (rnd, pid)
        prev = []
        for d in sorted(glob.glob(os.path.join(HERE, "seeded", pid + "-*"))):
            m = json.load(open(os.path.join(d, "meta.json")))
            prev.append(re.sub(r"\s+", " ", m.get("breaks") or "")[:420])
        text = """You are working in a scratch git worktree of the open-source repository coco-tools at {wt} (Python: a Microsoft Color BASIC -> Microware BASIC09 transpiler built on a parsimonious PEG grammar, plus several TRS-80 CoCo image-format decoders). Work ONLY inside {wt}. Do not read, list or use anything under /verif or /repo, and do not commit.

How to run things:
- tests:   cd {wt} && /venv/bin/python -m pytest -q -p no:cacheprovider      (306 tests, all pass now; they must still all pass after your change)
- scripts: cd {wt} && PYTHONPATH={wt} /venv/bin/python yourscript.py          (PYTHONPATH makes `import coco` use this worktree)
- main entry points: coco.b09.compiler.convert(text, **options), coco.decb_to_b09.start(argv), and the decoders coco/*toppm.py, coco/pixtopgm.py, coco/veftopng.py (each has start(argv)); the BASIC09 runtime library shipped as data is coco/resources/ecb.b09.

Here is a semantic property that the software is supposed to satisfy:

TITLE: {title}
STATEMENT: {statement}
QUANTIFIED OVER: {quant}
(Background on why the existing tests cannot settle it: {why})

YOUR TASK: introduce ONE realistic change to the source under {wt}/coco/ (code or the ecb.b09 resource) that BREAKS this property - as it is literally stated above - while the package still imports and ALL existing tests still pass. It should look like a regression a maintainer could plausibly introduce (a refactoring slip, an off-by-one, a wrong table entry, a forgotten case, an over-eager optimisation), not sabotage. IMPORTANT: prefer a change that needs something specific to manifest - an unusual but legal input, a particular combination of constructs or options, a multi-step sequence, or two cooperating sites that each look fine alone - rather than one that ordinary use would expose at once. It must be a NEW defect introduced by your change (the demonstration below must pass on the unmodified code).

DELIVERABLES (all inside {wt}):
1. {wt}/patch.diff  - output of `git diff -- coco` for your change (only files under coco/).
2. {wt}/demo.py     - a small self-contained demonstration: run as `cd {wt} && PYTHONPATH={wt} /venv/bin/python demo.py`; it must exit 0 on the ORIGINAL code and exit non-zero WITH your change, printing what it observed. Verify both (use `git stash` / `git stash pop` or `git apply -R patch.diff` to flip).
3. {wt}/meta.json   - {{"property": "{pid}", "summary": "...", "needs_to_manifest": "...", "files_changed": [...], "how_verified": "..."}}
Before finishing: confirm the full test suite passes with the change applied, leave the change applied in the worktree, and reply with a 5-line summary.

ADDITIONAL CONSTRAINTS FOR THIS ROUND. {n} changes were already produced for this property; yours must be a DIFFERENT defect (different mechanism and, where possible, different file / function / input class):
{prev}
{flavour}
""".format(wt=wt, title=p["title"], statement=p["statement"], quant=p["quantifier"]["text"], why=p["why_tests_cant"], pid=pid,
           n=len(prev), prev="\n".join('(%d) """%s"""' % (i + 1, t) for i, t in enumerate(prev)), flavour=FLAVOURS[rnd])
        open(os.path.join(outdir, "%s-%d.txt" % (pid, rnd)), "w").write(text)
    print("wrote", len(props), "prompts to", outdir)


if __name__ == "__main__":
    main()
