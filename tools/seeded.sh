#!/bin/sh
# tools/seeded.sh <worktree> <property> <name>  : verify a seeded change and run the property's quick check against it
wt=$1; pid=$2; name=$3
cd "$wt" || exit 2
git diff -- coco > patch.diff
echo "--- patch: $(grep -c '^[-+][^-+]' patch.diff) changed lines in $(git diff --name-only -- coco | tr '\n' ' ')"
PYTHONPATH=$wt /venv/bin/python demo.py >/tmp/demo_with.out 2>&1; rc_with=$?
git apply -R patch.diff
PYTHONPATH=$wt /venv/bin/python demo.py >/tmp/demo_without.out 2>&1; rc_without=$?
git apply patch.diff
echo "--- demo: with change rc=$rc_with, without rc=$rc_without"
tests=$(/venv/bin/python -m pytest -q -p no:cacheprovider 2>&1 | tail -1)
echo "--- suite with change: $tests"
cd /verif
out=$(VERIF_REPO=$wt ./check $pid --tier quick 2>&1); rc=$?
echo "--- ./check $pid quick against the change: rc=$rc"
echo "$out" | grep -E "^(VIOLATION|INCONCLUSIVE)" | cut -c1-220 | head -5
echo "$out" | tail -1
if [ -n "$name" ]; then
  d=/verif/seeded/$name; mkdir -p $d
  cp $wt/patch.diff $wt/demo.py $d/
  cp $wt/meta.json $d/agent_meta.json 2>/dev/null
  echo "{\"demo_rc_with\": $rc_with, \"demo_rc_without\": $rc_without, \"suite\": \"$tests\", \"check\": \"$pid quick\", \"check_rc\": $rc}" > $d/run.json
fi
