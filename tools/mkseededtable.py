#!/usr/bin/env python3
"""Regenerate the table of DESIGN.md section 9.1 (between the table header line and the 'Lessons taken' paragraph)
and print the counts, from seeded/*/meta.json."""
import glob
import json
import os
import re

HERE = os.path.dirname(os.path.dirname(os.path.abspath(__file__)))


def main():
    rows = []
    n = caught = 0
    for d in sorted(glob.glob(os.path.join(HERE, "seeded", "*"))):
        mp = os.path.join(d, "meta.json")
        if not os.path.exists(mp):
            continue
        m = json.load(open(mp))
        n += 1
        missed = m.get("initially_missed")
        caught += 0 if missed else 1
        desc = re.sub(r"\s+", " ", (m.get("breaks") or "")).replace("|", "/")
        if len(desc) > 230:
            desc = desc[:230] + "..."
        note = "caught as built" if not missed else "missed at first: " + re.sub(r"\s+", " ", m.get("strengthening") or "").replace("|", "/")
        rows.append("| %s | %s | %s | %s |" % (os.path.basename(d), desc, ", ".join(m.get("caught_by") or []), note))
    table = "| id | change (abridged from the agent's description) | caught by | note |\n|---|---|---|---|\n" + "\n".join(rows) + "\n"
    p = os.path.join(HERE, "DESIGN.md")
    s = open(p).read()
    a = s.index("| id | change (abridged from the agent's description)")
    b = s.index("Lessons taken from the misses")
    s = s[:a] + table + "\n" + s[b:]
    open(p, "w").write(s)
    print("seeded changes: %d, caught as built: %d, missed at first: %d" % (n, caught, n - caught))


if __name__ == "__main__":
    main()
