#!/usr/bin/env python3
"""Sensitivity self-test: apply each hand-written mutant (a realistic break of one property) to a scratch
worktree of /repo, check that the repository's own suite still passes, and that the named check(s) exit 1.

    python3 selftest/mutants.py [name-substring ...]      (run from /verif; worktrees live under /tmp and are removed)
"""
import json
import os
import subprocess
import sys

HERE = os.path.dirname(os.path.dirname(os.path.abspath(__file__)))
REPO = "/repo"

# (name, file, old, new, [checks that must fire])
MUTANTS = [
    ("c01-tan-atn-swapped", "coco/b09/grammar.py", '"TAN": "TAN",', '"TAN": "ATN",', ["C01"]),
    ("c01-paren-dropped", "coco/b09/elements.py", 'return f"({self._exp.basic09_text(indent_level)})"\n\n    def visit(self, visitor: "BasicConstructVisitor") -> None:\n        visitor.visit_exp(self)\n        self._exp.visit(visitor)\n\n\nclass BasicBooleanParenExp',
     'return f"{self._exp.basic09_text(indent_level)}"\n\n    def visit(self, visitor: "BasicConstructVisitor") -> None:\n        visitor.visit_exp(self)\n        self._exp.visit(visitor)\n\n\nclass BasicBooleanParenExp', ["C01"]),
    ("c01-hex-threshold", "coco/b09/elements.py", "if self._literal < 0x8000\n                else f\"{self._literal}.0\"", "if self._literal <= 0x8000\n                else f\"{self._literal}.0\"", ["C01"]),
    ("c01-numeric-if-eq-zero", "coco/b09/parser.py", 'BasicBooleanBinaryExp(exp, "<>", BasicLiteral(0.0))', 'BasicBooleanBinaryExp(exp, "=", BasicLiteral(0.0))', ["C01", "C02"]),
    ("c02-then-else-swapped", "coco/b09/parser.py", "        return BasicIfElse(\n            if_exp=self._as_bool_exp(if_exp),\n            then_statements=line_or_stmnts,\n            else_if_statements=[],\n            else_statements=else_statements,\n        )",
     "        return BasicIfElse(\n            if_exp=self._as_bool_exp(if_exp),\n            then_statements=else_statements,\n            else_if_statements=[],\n            else_statements=line_or_stmnts,\n        )", ["C02"]),
    ("c02-gosub-as-goto", "coco/b09/parser.py", 'return BasicGoto(linenum, False, is_gosub=go.text == "GOSUB")', 'return BasicGoto(linenum, False, is_gosub=go.text == "GOSUBX")', ["C02"]),
    ("c02-on-list-truncated", "coco/b09/parser.py", "        return [linenum] + linenums\n", "        return [linenum] + linenums[:2]\n", ["C02", "C06"]),
    ("c03-dim-bound-not-plus-one", "coco/b09/elements.py", "BasicLiteral(index.literal + 1)\n                        if isinstance(index, BasicLiteral)", "BasicLiteral(index.literal)\n                        if isinstance(index, BasicLiteral)", ["C03", "C10"]),
    ("c03-input-prompt-suffix", "coco/b09/parser.py", 'str_literal.literal if line != "" else f"{str_literal.literal}? "', 'str_literal.literal if line != "" else f"{str_literal.literal}?"', ["C03"]),
    ("c03-print-separator", "coco/b09/elements.py", '                processed_args.append("; ")', '                processed_args.append(", ")', ["C03"]),
    ("c04-locate-xy-swapped", "coco/b09/parser.py", 'return BasicRunCall("run ecb_locate", BasicExpressionList([col, row]))', 'return BasicRunCall("run ecb_locate", BasicExpressionList([row, col]))', ["C04"]),
    ("c04-hcolor-default", "coco/b09/parser.py", "                    fcolor,\n                    BasicLiteral(-1.0),", "                    fcolor,\n                    BasicLiteral(0.0),", ["C04"]),
    ("c04-preset-as-pset", "coco/b09/parser.py", "        mode, _ = visited_children\n        return mode.text", "        mode, _ = visited_children\n        return \"PSET\"", ["C04"]),
    ("c05-preassignments-after", "coco/b09/elements.py", '        return (\n            f"{super().basic09_text(indent_level)}"\n            f"{self._run_invocation}"\n            f"{self._arguments.basic09_text(indent_level)}"\n        )',
     '        pre = super().basic09_text(indent_level)\n        call = f"{self._run_invocation}{self._arguments.basic09_text(indent_level)}"\n        return call + (" \\\\ " + pre.strip().rstrip("\\\\").strip() if pre.strip() else "")', ["C05"]),
    ("c06-filter-ignores-on-lists", "coco/b09/visitors.py", "            for linenum in go_statement.linenums:\n                self.references.add(linenum)", "            for linenum in go_statement.linenums[:1]:\n                self.references.add(linenum)", ["C06"]),
    ("c06-bound-32699", "coco/b09/visitors.py", "line.num > 32699", "line.num > 32767", ["C06"]),
    ("c06-brk-counts-as-err", "coco/b09/visitors.py", "if type(statement) is self._statement_type:", "if isinstance(statement, self._statement_type):", ["C06"]),
    ("c07-endexit-missing", "coco/b09/elements.py", '                    f"{self.indent_spaces(indent_level + 1)}ENDEXIT"\n                    for ifstmnt in all_if_statements', '                    f"{self.indent_spaces(indent_level + 1)}"\n                    for ifstmnt in all_if_statements', ["C07"]),
    ("c09-truncate-to-three", "coco/b09/parser.py", "node.full_text[node.start : min(node.end, node.start + 2)]", "node.full_text[node.start : min(node.end, node.start + 3)]", ["C09"]),
    ("c09-str-suffix-dropped-in-arrays", "coco/b09/elements.py", 'self._var = BasicVar(f"arr_{var.name()}", is_str_expr=is_str_expr)', 'self._var = BasicVar(f"arr_{var.name().rstrip(chr(36))}", is_str_expr=is_str_expr)', ["C09", "C10"]),
    ("c10-per-name-map-wrong-key", "coco/b09/visitors.py", 'var if var.endswith("$") else f"arr_{var[:-3]}$": size', 'var if var.endswith("$") else f"arr_{var[:-3]}": size', ["C10"]),
    ("c11-flag-polarity", "coco/decb_to_b09.py", "filter_unused_linenum=args.filter_unused_linenum,", "filter_unused_linenum=not args.filter_unused_linenum,", ["C11"]),
    ("c11-width-flag-wired-to-init", "coco/decb_to_b09.py", "default_width32=not args.dont_run_width_32,", "default_width32=not args.dont_initialize_vars,", ["C11"]),
    ("c12-sorted-removed", "coco/b09/visitors.py", "for var in sorted(self.implicitly_declared_arrays)", "for var in self.implicitly_declared_arrays", ["C12"]),
    ("c13-closure-one-level", "coco/b09/procbank.py", "        for dependency in self._name_to_dependencies[procedure_name]:\n            self._add_procedure_dependencies(dependency, dependencies)", "        for dependency in self._name_to_dependencies[procedure_name]:\n            dependencies.add(dependency)", ["C13"]),
    ("c13-not-sorted", "coco/b09/procbank.py", "dependency_list = sorted(dependency_set) + [procedure_name]", "dependency_list = list(dependency_set) + [procedure_name]", ["C13", "C12"]),
    ("c14-argument-dropped", "coco/b09/parser.py", '                    register,\n                    color_code,\n                    BasicVar("display"),', '                    register,\n                    color_code,', ["C14", "C04"]),
    ("c14-type-field-added", "coco/b09/compiler.py", '"undrln, bck, fore, brdr, hbck, hfore, hscl, hpy, hagl, hdsc: byte; hpx: integer"', '"undrln, bck, fore, brdr, hbck, hfore, hscl, hpy, hagl, hdsc, hxtra: byte; hpx: integer"', ["C14"]),
    ("c15-refusal-check-removed", "coco/b09/compiler.py", "    if len(on_err_collector.statements) > 1:\n        raise ParseError", "    if len(on_err_collector.statements) > 99:\n        raise ParseError", ["C06"]),
    ("c15-unguarded-attribute", "coco/b09/parser.py", '        blink = BasicLiteral(1.0 if "B" in options else 0.0)', '        blink = BasicLiteral(1.0 if options[0] == "B" else 0.0)', ["C15", "C04"]),
    ("c16-nibble-order-hrs", "coco/hrstoppm.py", "            dump(c >> 4)\n            dump(c & 15)\n        if width % 2:", "            dump(c & 15)\n            dump(c >> 4)\n        if width % 2:", ["C16"]),
    ("c16-palette-bit", "coco/cm3toppm.py", "(getbit(c, 4) * 2 + getbit(c, 1)) * 85,", "(getbit(c, 4) * 2 + getbit(c, 0)) * 85,", ["C16"]),
    ("c16-max-bitpair-order", "coco/maxtoppm.py", "                            semig[1 + getbit(v, 7 - k - k) + getbit(v, 6 - k - k) * 2]", "                            semig[1 + getbit(v, 7 - k - k) * 2 + getbit(v, 6 - k - k)]", ["C16"]),
    ("c17-cm3-copy-left-index", "coco/cm3toppm.py", "a = linbuf[(x - 1) % 160]", "a = linbuf[(x - 1) % 159]", ["C17"]),
    ("c18-header-from-wrong-variable", "coco/maxtoppm.py", 'out.write(strtoio("P6\\n{} {}\\n255\\n".format(cols, rows)))', 'out.write(strtoio("P6\\n{} {}\\n255\\n".format(rows, cols)))', ["C18"]),
    ("c18-skip-applied-twice", "coco/hrstoppm.py", "    if skip:\n        f.read(skip)\n", "    if skip:\n        f.read(skip)\n        f.read(skip > 10 and 1 or 0)\n", ["C18"]),
    ("c19-output-not-removed", "coco/maxtoppm.py", "    if not ok:\n        os.remove(args.output_image.name)", "    if not ok and args.rows:\n        os.remove(args.output_image.name)", ["C19"]),
    ("c20-string-count-off-by-one", "coco/resources/ecb.b09", "for ii=1 to count\n    strout = strout + mid$(str, 1, 1)", "for ii=2 to count\n    strout = strout + mid$(str, 1, 1)", ["C20"]),
    ("c20-read-filter-empty", "coco/resources/ecb.b09", 'if inval = "" then\n    outval = 0.0', 'if inval = " " then\n    outval = 0.0', ["C20"]),
]


def sh(cmd, **kw):
    return subprocess.run(cmd, shell=True, capture_output=True, text=True, **kw)


def main(argv):
    sel = [m for m in MUTANTS if not argv or any(a in m[0] for a in argv)]
    results = []
    for name, fn, old, new, checks in sel:
        wt = "/tmp/mut-" + name
        sh("git -C %s worktree remove --force %s" % (REPO, wt))
        r = sh("git -C %s worktree add -q %s HEAD" % (REPO, wt))
        path = os.path.join(wt, fn)
        src = open(path).read()
        if old not in src:
            results.append((name, "PATTERN-NOT-FOUND", {}))
            sh("git -C %s worktree remove --force %s" % (REPO, wt))
            continue
        open(path, "w").write(src.replace(old, new, 1))
        t = sh("cd %s && /venv/bin/python -m pytest -q -p no:cacheprovider -x 2>&1 | tail -1" % wt)
        suite_ok = " passed" in t.stdout and "failed" not in t.stdout
        fired = {}
        for c in checks:
            p = sh("cd %s && VERIF_REPO=%s ./check %s --tier quick" % (HERE, wt, c))
            fired[c] = p.returncode
        sh("git -C %s worktree remove --force %s" % (REPO, wt))
        status = "ok" if (suite_ok and any(v == 1 for v in fired.values())) else ("SUITE-FAILS" if not suite_ok else "MISSED")
        results.append((name, status, fired))
        print("%-34s %-12s suite=%s checks=%s" % (name, status, t.stdout.strip()[:22], fired), flush=True)
    bad = [r for r in results if r[1] != "ok"]
    print("%d mutants, %d not ok" % (len(results), len(bad)))
    json.dump([{"name": n, "status": s, "checks": f} for n, s, f in results], open(os.path.join(HERE, "selftest", "last_run.json"), "w"), indent=1)
    return 1 if bad else 0


if __name__ == "__main__":
    sys.exit(main(sys.argv[1:]))
