#!/usr/bin/env python3
"""Systematic single-line mutation sweep (complements the hand-written mutants and the sub-agents' seeded changes).

    python3 selftest/mutsweep.py <file under coco/> <regex selecting lines> [--checks C01,C05,...] [--workers 6] [--mode delete|swap]

Every selected line is, one at a time, replaced by `pass` (mode delete) in a scratch worktree of /repo; the repository's
suite is run, and for the mutants the suite lets through, the given quick checks are run with VERIF_REPO pointing at the
worktree.  The report (selftest/mutsweep_<file>.json) lists, per mutant, what the suite said and which checks fired.
Mutants that survive everything are either equivalent or holes: each is looked at by hand (DESIGN.md section 9.2)."""
import concurrent.futures as cf
import json
import os
import re
import subprocess
import sys

HERE = os.path.dirname(os.path.dirname(os.path.abspath(__file__)))
REPO = "/repo"


TOKEN_SWAPS = [(" == ", " != "), (" != ", " == "), (" < ", " <= "), (" <= ", " < "), (" > ", " >= "), (" >= ", " > "), (" and ", " or "),
               (" or ", " and "), ("True", "False"), ("False", "True"), (" + 1", " + 0"), (" - 1", " - 0"), ("[1:]", "[0:]"), ("[4:]", "[3:]"),
               (" not ", " "), ("is not None", "is None"), (" is None", " is not None"), (" in ", " not in "), ("[0]", "[-1]"), ("[-1]", "[0]"),
               (".append(", ".insert(0, "), ("sorted(", "list("), (" % 2", " % 3"), (">> 1", ">> 2"), ("& 7", "& 15"), ("& 15", "& 7"),
               ("* 2", "* 1"), ("// 2", "// 1"), ("len(", "bool(")]


def sh(cmd, cwd=None, env=None, timeout=1800):
    p = subprocess.run(cmd, shell=True, cwd=cwd, env=env, capture_output=True, text=True, timeout=timeout)
    return p.returncode, p.stdout + p.stderr


def worker(args):
    wid, rel, jobs, checks = args
    wt = "/tmp/ms-%d" % wid
    sh("git -C %s worktree remove --force %s" % (REPO, wt))
    rc, out = sh("git -C %s worktree add -q --detach %s HEAD" % (REPO, wt))
    res = []
    path = os.path.join(wt, rel)
    orig = open(path).read().split("\n")
    for (ln, new) in jobs:
        lines = list(orig)
        old = lines[ln]
        lines[ln] = new
        open(path, "w").write("\n".join(lines))
        r = {"line": ln + 1, "old": old.strip(), "new": new.strip()}
        rc, out = sh("/venv/bin/python -c \"import coco.b09.compiler\"", cwd=wt, env=dict(os.environ, PYTHONPATH=wt))
        if rc != 0:
            r["suite"] = "import-error"
        else:
            rc, out = sh("/venv/bin/python -m pytest -q -x -p no:cacheprovider --timeout=600 2>&1 | tail -1", cwd=wt)
            r["suite"] = "pass" if " passed" in out and "failed" not in out and "error" not in out else "fail"
        if r["suite"] == "pass":
            fired = {}
            for c in checks:
                env = dict(os.environ, VERIF_REPO=wt)
                rc, out = sh("./check %s --tier quick" % c, cwd=HERE, env=env)
                sigs = re.findall(r"^VIOLATION property=\S+ replay=\S+ sig=(\S+)", out, re.M)
                fired[c] = {"rc": rc, "sigs": sigs[:3]}
                if rc not in (0, 1):
                    fired[c]["why"] = [ln[:300] for ln in out.split("\n") if ln.startswith("INCONCLUSIVE")][:2] or [out[-300:]]
            r["checks"] = fired
            r["caught"] = any(v["rc"] == 1 for v in fired.values())
        res.append(r)
        # the whole worktree is reset, not only the mutated file: a mutant may have made a test overwrite a fixture
        sh("git checkout -q -- . && git clean -fdq", cwd=wt)
    sh("git -C %s worktree remove --force %s" % (REPO, wt))
    return res


def main():
    rel = sys.argv[1]
    pat = re.compile(sys.argv[2])
    checks = "C01,C02,C03,C04,C05,C07,C10,C14".split(",")
    workers = 6
    mode = "delete"
    a = sys.argv[3:]
    while a:
        k = a.pop(0)
        if k == "--checks":
            checks = a.pop(0).split(",")
        elif k == "--workers":
            workers = int(a.pop(0))
        elif k == "--mode":
            mode = a.pop(0)
    src = open(os.path.join(REPO, rel)).read().split("\n")
    jobs = []
    for i, ln in enumerate(src):
        if pat.search(ln) and not ln.strip().startswith(("#", "def ", "class ", "return", "raise")):
            indent = ln[:len(ln) - len(ln.lstrip())]
            if mode == "delete":
                if ln.rstrip().endswith(("(", ",", "[", "{")) or ln.strip().startswith((")", "]", "}")):
                    continue       # part of a multi-line construct
                jobs.append((i, indent + "pass"))
            else:
                # token mode: every applicable single-token replacement on the line is one mutant
                if ln.strip().startswith(('"', "'", "f\"", "r\"")) or '"""' in ln:
                    continue
                code = ln.split("#")[0]
                for a, b in TOKEN_SWAPS:
                    k = code.find(a)
                    if k >= 0:
                        jobs.append((i, ln[:k] + b + ln[k + len(a):]))
    chunks = [jobs[k::workers] for k in range(workers)]
    out = []
    with cf.ThreadPoolExecutor(max_workers=workers) as ex:
        for res in ex.map(worker, [(k, rel, chunks[k], checks) for k in range(workers) if chunks[k]]):
            out.extend(res)
    out.sort(key=lambda r: r["line"])
    name = os.path.join(HERE, "selftest", "mutsweep_%s.json" % os.path.basename(rel).replace(".", "_"))
    json.dump({"file": rel, "pattern": sys.argv[2], "checks": checks, "mutants": out}, open(name, "w"), indent=1)
    n = len(out)
    surv = [r for r in out if r["suite"] == "pass"]
    missed = [r for r in surv if not r.get("caught")]
    print("%d mutants; suite lets %d through; of those %d caught by a check, %d not" % (n, len(surv), len(surv) - len(missed), len(missed)))
    for r in missed:
        print("  NOT CAUGHT line %d: %s" % (r["line"], r["old"]))


if __name__ == "__main__":
    main()
